"""Per-property configuration of ./check: packages, stages, case counts, evidence texts."""

PROPS = {}

PROPS["C19"] = dict(
    pkg="c19", level="exploration",
    technique="stateful differential property-based testing (rapid) against bytes.Buffer + native fuzzing via rapid.MakeFuzz",
    claim=("Generated operation sequences (tens of thousands in quick, millions in thorough) are executed on PrintCtx and on "
           "bytes.Buffer in lock-step and every result, error class, panic and the remaining contents are compared after every "
           "step. This is exploration, not proof: equivalence is shown for the sampled sequences only."),
    note="bytes.Buffer of the building toolchain is the trusted reference; sizes between 5000 bytes and MaxInt-70000 are not generated (real allocations).",
    rule=("rapid draws a start state (nil / zero value / pre-filled len<cap / len==cap / string / empty with capacity) and 1..40 "
          "operations of the 20 listed methods with sizes around 0, 64, 512, 1024, 2048 and MaxInt; each is applied to a "
          "PrintCtx and to a bytes.Buffer in lock-step. Non-trivial: the sequence has a read-type operation after a "
          "write-type one and more than 64 bytes were written (so growth/slide code ran); distinct = distinct (start kind, "
          "operation-kind sequence)."
          " Every slice returned by ReadBytes is retained and re-compared after each later step (it must be a copy)."
          " Rarely: sizes of 64 KiB - 200 KB, a template (big write, big Read/Next, UnreadByte/UnreadRune/ReadByte), scripted readers that idle for 99-1000 reads or end with an error that wraps io.EOF."
          " Second stage: the encoder as it is handed to user marshallers inside real records (1-3 records in a row on pooled contexts, 1-3 marshaller attributes each, 3 formats): at every marshaller entry the reference is a fresh bytes.Buffer with the encoder's contents, length, capacity and read offset (whatever the library wrote since the last call counts as a Write), then 0-8 operations in lock-step; non-trivial: a marshaller starts with Unread* after the previous one ended with a read."),
    assumptions=["bytes.Buffer of the toolchain that builds the harness is the reference",
                 "panic values are compared by class (too-large / error / other), not by wording",
                 "Cap/Available/AvailableBuffer are not part of the listed interface and are not compared"],
    stages=[
        dict(name="differential", run="^TestBufferDifferential$", quick=60000, thorough=4000000, shards=16,
             timeout_quick=600, timeout_thorough=3000),
        dict(name="inside-marshallers", run="^TestInsideMarshallers$", quick=30000, thorough=1000000, shards=16, timeout_thorough=3400),
        dict(name="fuzz", fuzz="FuzzBufferDifferential", fuzztime=120),
    ],
)

PROPS["C20"] = dict(
    pkg="c20", level="exploration",
    technique="property-based round-trip and differential testing (rapid) against time.ParseDuration + native fuzzing",
    claim=("Round trip format->parse over generated int64 durations (uniform, composed boundary values, extremes) in both styles, and "
           "differential agreement of the parser with time.ParseDuration over generated/mutated duration strings; strings with the "
           "day unit are compared with the standard parser on the equal hours form. Exploration: sampled values only."),
    note="time.ParseDuration of the building toolchain is the reference; fractional day terms are compared within 1ns per term (float rounding) and accept/reject is not asserted within that distance of the int64 limits.",
    rule=("(a) rapid draws int64 durations (uniform; sign x days{0,1,2,99,99999,106750,106751} x h x m x s x ms x us x ns; unit boundaries +-3; "
          "MinInt64/MaxInt64) and a style; non-trivial: |d| >= 24h or a sub-second part next to whole seconds; distinct = (style, value). "
          "(b) rapid draws strings: grammar of 1..5 number+unit terms (numbers incl. 17-25 digit overflow cases, units incl. d and junk), "
          "1-2 byte edits of those, random strings over the duration alphabet, arbitrary strings, and formatter output; non-trivial: accepted "
          "by at least one of the two parsers; distinct = the string. "
          "Families of near-identical texts (padded to boundary lengths 15-257, variants of the last byte) are parsed in a row. (c) 8 goroutines format and parse 8-48 generated values 40 times each at once; every result must equal the one computed alone."),
    assumptions=["time.ParseDuration (Go toolchain building the harness) is the reference parser",
                 "a day term equals 24 hours; fractional day terms may differ by 1ns from the hours form"],
    stages=[
        dict(name="format", run="^TestFormatRoundTrip$", quick=150000, thorough=8000000, shards=8, timeout_quick=600, timeout_thorough=3000),
        dict(name="parse", run="^TestParseAgainstStdlib$", quick=150000, thorough=8000000, shards=8, timeout_quick=600, timeout_thorough=3000),
        dict(name="concurrent", run="^TestConcurrentRoundTrip$", quick=300, thorough=20000, shards=8, timeout_thorough=3000),
        dict(name="fuzzparse", fuzz="FuzzParseDuration", fuzztime=120),
        dict(name="fuzzformat", fuzz="FuzzFormat", fuzztime=60),
    ],
)

PROPS["C01"] = dict(
    pkg="c01", level="exploration",
    technique="property-based testing (rapid) of every public entry point against a reference admission predicate; full enumeration of the built-in level matrix",
    claim=("Every generated (level registry, debug-mode history, logger kind, logger level, severity, entry point) scenario is executed on "
           "recording writers and compared with the admission rule written from the statement; Enabled/EnabledContext are compared too. "
           "The built-in sub-space (12x12 levels x all ~60 entry points x debug off/explicit/side-effect x root/child) is enumerated "
           "completely on every run; custom registries and numeric levels are sampled."),
    note="Termination is disabled with LnoInterrupt (C12 owns it). Treated-as targets are restricted to Panic..Trace because the statement does not say how a level treated as Off/Always/OK/Success/Fail chains. Registry isolation relies on the verif hook.",
    rule=("rapid draws 0-4 RegisterLevel calls (values negative/12..40/huge/colliding, optional treated-as in Panic..Trace, optional error device), "
          "a debug history (off / SetDebugMode / side effect of SetLevel(Debug) on another logger), a logger kind (root via interface, root *Entry, "
          "child, grandchild), L and r from the built-in levels and the levels registered in that case (numeric levels that are neither are outside the property's quantifier), and an entry point able to carry r. "
          "Non-trivial: the pair is decided by a clause other than plain built-in ordering, or the entry point is not a plain verb method; "
          "distinct = (clause, entry point, kind of L, kind of r, decision)."
          " The debug mode may also be changed after the logger's level was set, or switched off again before the call; the side-effect history also runs SetLevel(Debug) on a child / grandchild of an unrelated root; the Print/Println family is also called without a message / without any argument; a fifth of the generated cases run with an application-provided holder of the process-wide switches (states.UpdateEnvWith)."),
    assumptions=["recording writers installed with SetWriter/SetErrorWriter/AddLevelWriter see everything the logger emits",
                 "is.DebugMode() reflects the process-wide debug mode the gate consults"],
    stages=[
        dict(name="matrix", run="^TestAdmissionMatrix$", quick=1, thorough=1),
        dict(name="generated", run="^TestAdmissionGenerated$", quick=40000, thorough=8000000, shards=16, timeout_thorough=3000),
    ],
)

PROPS["C02"] = dict(
    pkg="c02", level="exploration",
    technique="property-based testing (rapid) over a free-form argument grammar with recording writers; native fuzzing via rapid.MakeFuzz",
    claim=("Generated calls (any entry point, any built-in severity, arbitrary message bytes, free-form argument lists with malformed "
           "shapes) on generated logger configurations are executed against recording writers: the call must return, each writer "
           "selected for the severity gets exactly one Write ending in a newline with identical bytes, all others nothing, and a "
           "non-admitted call writes nothing. Exploration over sampled inputs."),
    note="Termination disabled (LnoInterrupt). Values with user methods that panic, cyclic values and typed-nil Attr/error values are never generated (excluded by the statement). Blank messages are made of space, tab, CR, LF only.",
    rule=("rapid draws a configuration (format, 10 flag toggles, logger level, root/child, logger attributes, 1-3 normal / 1-2 error / 0-2 "
          "per-level recording writers) and a call (entry point able to carry a drawn built-in severity, message of any byte class, 0-90 "
          "argument items from: key/value of every kind, Attr, typed constructors, dangling key, non-string in key position, Attrs, []Attr "
          "with nil elements, groups nested to depth 6, empty groups/keys, error values; Println with no or a non-string first argument). "
          "Non-trivial: the list has a malformed/structured element, >=34 args, a Println special form or a blank Print; distinct = "
          "(format, entry kind, shape set, println mode, admitted, number of selected writers)."
          " Some configurations are built with AddWriter/AddErrorWriter only (both orders; the standard devices stay in the lists, pointed at /dev/null); the flags are set through SetFlags, Add/RemoveFlags, an open SaveFlagsAndMod scope or after its restore function. Messages and values of 64 KiB - 1 MiB are mixed in (and 1 of 80 messages is 70-300 KB long). A further writer (4 kinds) may be added after the first one of a list and removed again before the call (it must receive nothing). The list the record is bound for may have been closed through GetWriter().Close() / GetWriterBy(l).Close() before the call (recorder-only lists): the call must return normally and nobody gets the record twice or in part; delivery itself is not asserted then. Once per process 6000 records with distinct valid program counters are handed to WriteThru first (a long-running process has seen thousands of call sites)."),
    assumptions=["the destination set is computed with the C03 routing model (per-level > error-class > normal)"],
    stages=[
        dict(name="delivery", run="^TestDelivery$", quick=30000, thorough=1200000, shards=16, timeout_thorough=3000),
        dict(name="fuzz", fuzz="FuzzDelivery", fuzztime=120),
    ],
)

PROPS["C03"] = dict(
    pkg="c03", level="exploration",
    technique="model-based stateful property testing (rapid): generated writer-configuration histories vs a reference writer-set model; child processes for the stdout/stderr fall-back",
    claim=("Generated histories of the 11 writer operations (as methods and as New(...) options, incl. nil writers, removes of never-added "
           "writers, operations on fresh loggers) over a pool of 6 recording writers of 4 kinds and up to 3 loggers are run against a "
           "reference model; every probe record (15 severities incl. registered/unregistered custom levels and Off) must reach exactly the "
           "model's destinations, LevelSettable destinations must have been told the severity before their Write, and no operation may "
           "panic. The package-default stdout/stderr fall-back is observed in re-executed child processes. Exploration of sampled histories."),
    note="Removing a writer that occurs more than once in a list is not generated (statement silent on duplicates); os.Stdout/os.Stderr themselves are not pool members. In-process, per-logger default lists are observed through swapped os.Stdout/os.Stderr variables; the process-wide default writer only in the child-process stage.",
    rule=("rapid draws 1-3 loggers (roots/children, optionally created with 1-4 writer options) and up to 30 steps of writer operations and "
          "probes, then probes every logger at Info, Error and a drawn severity. Non-trivial: the history contains a remove or reset that "
          "changed the model state, or a probe answered by per-level writers or at a custom level; distinct = (operation-name sequence, class set)."
          " Six custom levels cover every combination of error device / treated-as / negative value / unregistered; in a fifth of the histories one pool writer fails on every Write (routing must be unaffected); the package default logger (and children of it, uniquely named per case) takes part in the histories; one pool writer is handed over as the handle slog.NewLogWriter returns for it (and the level-settable one too, in every other case); children are also made through WithSkip / WithLevel / WithAttrs; a third of the writer operations are sandwiched between two probes of one severity on that logger; an eighth of the probes are blank Println() / Print(\"\") calls (the line break is the record and must be announced like any other)."),
    assumptions=["each record carries a unique probe token, counted in the captured streams",
                 "all loggers are at level Always so that every severity except Off is admitted (gating is C01)"],
    stages=[
        dict(name="histories", run="^TestRoutingHistories$", quick=20000, thorough=4000000, shards=16, timeout_thorough=3000),
        dict(name="child", run="^TestStdFallbackChild$", quick=600, thorough=48000, shards=16, timeout_thorough=3000),
        dict(name="lists", run="^TestListDestinations$", quick=3000, thorough=400000, shards=8, timeout_thorough=3000),
    ],
)

PROPS["C13"] = dict(
    pkg="c13", level="fault_enumeration",
    technique="fault injection with enumerated and rapid-generated failure schedules on recording writers, against a bounded-reaction model",
    claim=("Every fail/succeed assignment to the first k Write attempts (k=8 quick, 12 thorough; partial and zero counts) is enumerated on 4 "
           "canonical writer configurations x 3 logger levels, and rapid draws further configurations (1-3 normal / 1-3 error / 0-2 per-level "
           "writers with sharing, all 12 logger levels, 3 formats), call sequences, schedules and permanently failing writers. Per call: "
           "returns normally, every selected destination gets the whole record exactly once, at most one diagnostic (to the warning "
           "destinations, none for a failing warning or when Warn is not admitted), no cascade; after the faults stop every call is "
           "delivered exactly once with no diagnostics."),
    note="A cascade guard turns more than 200 Write attempts in one call into a violation instead of a stack overflow. Termination disabled (LnoInterrupt).",
    rule=("enumeration: bitmask over the global order of Write attempts; generation: rapid draws pool size 2-6, writer lists (with shared "
          "writers), per-level lists, logger level, format, 1-12 calls at any built-in severity, up to 40 fail bits with partial-count flags, "
          "an optional set of permanently failing writers, and 1-6 fault-free suffix calls. Non-trivial: a failure on a writer that is not the "
          "last of its list, or a failing diagnostic, or a failure followed by checked recovery; distinct = the whole scenario. A failing Write returns one of seven error kinds (injected, wrapping os.ErrClosed, io.ErrClosedPipe, io.ErrShortWrite, EPIPE, io.EOF, deadline exceeded); the logger may be a child / grandchild of a root that has recording writers of its own and level Always (nothing may arrive there)."),
    assumptions=["destinations are computed with the C03 routing model, admission of the diagnostic with the C01 rule"],
    stages=[
        dict(name="exhaustive", run="^TestExhaustiveSchedules$", quick=1, thorough=1, timeout_thorough=3000),
        dict(name="generated", run="^TestGeneratedFaults$", quick=20000, thorough=4000000, shards=16, timeout_thorough=3000),
    ],
)

PROPS["C12"] = dict(
    pkg="c12", level="exploration",
    technique="property-based testing (rapid) with re-executed child processes in testing and production mode; enumeration of the Panic/Fatal flag matrix in the thorough tier",
    claim=("Each scenario (entry point, severity, logger level incl. a custom level treated as Panic, no-interrupt and interrupt-always flags, "
           "format, process mode) is executed in a child process built from the tree whose binary name selects testing or production mode; "
           "exit status, recovered panic value, 'returned' marker and the records found in the destination file are compared with "
           "terminate = admitted and not noInterrupt and (production or interruptAlways) and severity in {Panic,Fatal}. The Panic half and "
           "all negative cases also run in-process at high volume. Thorough enumerates the whole {Panic,Fatal} matrix (~4400 child processes)."),
    note="'Under a debugger' cannot be reproduced here. Production mode is obtained by running a copy of the test binary under a name not ending in .test (that is how hedzr/is decides). Records are counted with a separator appended by the harness writer.",
    rule=("quick: rapid draws cells (3/4 of them with severity Panic or Fatal) for child processes and in-process scenarios with messages of any "
          "byte class. Non-trivial: the cell terminates, or exactly one conjunct of the termination condition is false; distinct = (entry point, "
          "severity, logger level, both flags, format, process mode)."
          " The termination flags are set through SetFlags, Add/RemoveFlags, an open SaveFlagsAndMod scope or after its restore function; child scenarios include unregistered negative and huge severities; a third of the child processes log to slog.NewFileWriter(path) instead of the harness's own unbuffered file writer (half of the matrix cells); the flags may also be set by a closed SaveFlagsAndMod scope that added flags which were set already; calls carry one of four argument shapes (key/value, none, Attr values only, mixed); a quarter of the child processes get an additional -test.bench argument; destinations include io.Discard (only the termination can be observed then)."),
    assumptions=["the child observes the record through an unbuffered os.File write before the process ends"],
    stages=[
        dict(name="child", run="^TestChildSampled$", quick=700, thorough=32000, shards=16, timeout_thorough=3000),
        dict(name="inprocess", run="^TestInProcess$", quick=20000, thorough=2400000, shards=16, timeout_thorough=3000),
        dict(name="matrix", run="^TestChildMatrix$", tier="thorough", thorough=16, shards=16, timeout_thorough=3000),
    ],
)

PROPS["C04"] = dict(
    pkg="c04", level="exploration",
    technique="property-based testing (rapid) with encoding/json as independent judge and a by-meaning comparison of every member; native fuzzing of message/key/value bytes",
    claim=("Generated records (every severity incl. registered/unregistered custom levels, named/unnamed logger, caller on/off, through "
           "WriteThru with an explicit timestamp, LogAttrs arguments or logger attributes; messages and keys of any bytes; values of every "
           "supported kind; groups nested to depth 4) are emitted in JSON mode and the payload must be one line, valid UTF-8, one JSON object "
           "accepted by encoding/json, whose members are exactly time, logger (iff named), level, msg, caller (iff enabled) and one member per "
           "attribute, each compared by meaning in both directions. Exploration of sampled inputs."),
    note="Reserved names time/level/msg/caller/logger are excluded as keys at every nesting level; keys are unique per level (C07 owns merging) also after replacing invalid UTF-8 bytes; records whose keys are not valid UTF-8 are judged for framing only; fallback-formatted values only for well-formedness and containing fmt.Sprint of the value; user marshallers/stringers are outside the domain; an Always-severity blank message is not a record (C02).",
    rule=("rapid draws the configuration, a message (ascii, arbitrary bytes, hostile constants, multi-line, >1024 bytes, blank) and an attribute "
          "tree (keys: identifiers, arbitrary bytes, hostile constants; values: 22 scalar kinds, 17 typed slice kinds, 7 fallback kinds; groups at "
          "any position, possibly empty). Non-trivial: a hostile byte class in message/key/value (quote, backslash, CR/LF, control, ESC, invalid "
          "UTF-8, U+2028), or a group, or a non-string kind; distinct = the set of classes and kinds present."
          " The logger is put into its format in four ways (Set...Mode, option of New, option of New on a child of a parent in another format, With...Mode method); flags are set through all public ways. A scratch record of a fixed menu (other format, multi-line, groups, nil last, background colour, own layout, child with context keys) may be printed right before the record (pooled printing contexts). Fallback kinds include []error, pointer to struct, map[string]any. The logger may have a (year-less, lossy) time layout of its own, which must govern the time field only; 1 of 80 messages is 70-300 KB long; strings of exactly 15..8193 bytes (around every power of two) are drawn; with caller info the source tree may be registered as a known path whose replacement contains quote, backslash, TAB, LF or non-ASCII; a garbage collection or a record whose value panics while it is printed (recovered) may precede the record; error values include wrap chains of 2-40 layers. Half of the records that are not written through are issued by a drawn public entry point able to carry the severity (verbs, Context verbs, Logit, Log, package-level functions on the default logger)."),
    assumptions=["encoding/json (with UseNumber, plus a UTF-8 validity check and a duplicate-name check) is the JSON judge"],
    stages=[
        dict(name="records", run="^TestJSONRecords$", quick=40000, thorough=1600000, shards=16, timeout_thorough=3000),
        dict(name="fuzz", fuzz="FuzzJSON", fuzztime=180),
    ],
)

PROPS["C05"] = dict(
    pkg="c05", level="exploration",
    technique="property-based testing (rapid) with an independent logfmt tokenizer + strconv.Unquote as judge, in a production-mode and a testing-mode binary; native fuzzing",
    claim=("Generated records (as for C04, with legal logfmt keys) are emitted in logfmt mode; the payload must be one line that the harness's own "
           "tokenizer accepts completely: time, logger (iff named), level, msg in that order, then exactly the flattened attributes (dotted keys "
           "for group members; their order and the place of the caller pairs are not asserted - C07 states the order) with every string-like value quoted and unquoting to the exact bytes, numbers/bools bare and "
           "exact, then the caller pairs iff enabled. The check runs in a production-mode copy of the binary (one-line clause for every value "
           "kind incl. errors) and under go test (the multi-line error dump after the line is exempt)."),
    note="Keys: non-empty, valid UTF-8, no space/'='/quote/control/'.'; reserved names excluded at every level; runs of blanks between pairs are accepted (statement: space-separated); nil may be printed as the bare placeholder <nil>.",
    rule=("as C04 with keys from the legal-logfmt class. Non-trivial: a group followed by at least one sibling in key order, or a hostile byte class "
          "in message/value, or a non-string kind, or a group; distinct = the set of classes and kinds present."
          " The logger is put into its format in four ways (Set...Mode, option of New, option of New on a child of a parent in another format, With...Mode method); flags are set through all public ways. Scratch record, own time layout, huge messages and entry points as C04. With caller info the source tree may be registered as a known path whose replacement contains quote, backslash, TAB, LF or non-ASCII. Keys include some with a leading dot and near-reserved words (callers, caller_id, levels, message). The logger name may need quoting itself (quote + forged pair, LF, TAB, backslash, control byte, non-ASCII, blank, equals sign)."),
    assumptions=["strconv.Unquote is the inverse of the quoting the statement asks for", "production mode = harness binary run under a name not ending in .test"],
    stages=[
        dict(name="production", run="^TestLogfmtRecords$", mode="prod", quick=30000, thorough=800000, shards=16, timeout_thorough=3000),
        dict(name="testing", run="^TestLogfmtRecords$", quick=20000, thorough=800000, shards=16, timeout_thorough=3000),
        dict(name="fuzz", fuzz="FuzzLogfmt", fuzztime=180),
    ],
)

PROPS["C07"] = dict(
    pkg="c07", level="exploration",
    technique="property-based testing (rapid) of generated logger chains / context keys / colliding attribute lists against a reference merge, decoded with the independent JSON and logfmt parsers",
    claim=("Generated scenarios (chain depth 1-4 with possibly empty own-attribute lists set in four different ways, inherit flag on/off, 0-3 "
           "string/Stringer context keys present or absent, context / nil context / non-context verbs, call lists of 0-64 attributes over a tiny "
           "key alphabet with groups containing duplicates, three formats) are logged and the decoded record must equal the reference merge: "
           "context values, ancestors outermost first iff the flag, own, call; last occurrence wins; ascending key order at every level."),
    note="Values are unique small ints/strings so that the winning occurrence is identifiable; relies on the C04/C05 decoders for plain ints and strings only; colored records are stripped of SGR sequences and the attribute region is tokenised.",
    rule=("rapid draws the scenario; about half of the call lists have >= 13 entries (stability threshold of the sort). Non-trivial: at least two "
          "sources contribute the same key, or >= 13 attributes with a duplicate, or a parent contributes while the logging logger has no own "
          "attributes; distinct = (format, flag, context mode, class set, chain depth, number of source attributes)."
          " A quarter of the scenarios give one shared Attrs value (spare capacity) to every logger through SetAttrs1; half emit a second record after attributes were added to a drawn logger of the chain, with another call list. Own attributes may also be set with SetAttrs1(slog.NewAttrs(args...)); a scratch record may be printed right before the record (as C04). Chain members may be made by WithSkip(1); ancestors may have a context key of their own with a value in the context (never printed); chain depths 6, 9 and 13 and own lists of 127-300 attributes are drawn too; the call is one of Info/Warn/Print/Println (method, Context variant, or the package-level function of that name on the default logger)."),
    assumptions=["merge order stated in the property: context < ancestors (outermost first) < own < call"],
    stages=[dict(name="assembly", run="^TestAssembly$", quick=25000, thorough=4000000, shards=16, timeout_thorough=3000)],
)

PROPS["C06"] = dict(
    pkg="c06", level="exploration",
    technique="property-based testing (rapid) with an SGR terminal-state simulator and a positional reference layout + independent tokenizer for the attribute region; production and testing binaries; native fuzzing",
    claim=("Generated colored records (all severities incl. registered with/without tags+colours and unregistered, tag widths 1-5, minimal "
           "widths 16-80, single/multi-line messages with/without trailing newline, every value kind incl. errors and groups, caller on/off) are "
           "checked (a) for hygiene on the raw payload: SGR state reset at every line break and at the end (the go-test error dump may keep a "
           "colour across its own lines), no control byte other than LF and no ESC outside SGR sequences unless the message itself contains "
           "control bytes; (b) for layout on the stripped text: timestamp, optional name, [tag] of the configured width, first line padded to "
           "the minimal width, attributes key=value in ascending order compared by meaning, caller tail, remaining lines indented by 4 spaces."),
    note="Layout class: messages without '<', '>', '&' and control characters other than LF; values of kinds whose colored rendering tokenises unambiguously (no fallback kinds). Padding is exact for ASCII first lines, a lower bound (byte width) for non-ASCII ones. Tabs inside the go-test error dump are tolerated. The caller tail is only checked for its shape (C14 owns its content). A raw tab is tolerated when the message contains '&' (a tab written as a character reference is the message's own tab).",
    rule=("rapid draws the scenario: 2/3 layout class, 1/3 hygiene class (any message without ESC incl. markup, every value kind). Non-trivial: a "
          "multi-line message, or a level without colour entry, or a value with control bytes, or widths different from the defaults; distinct = "
          "(class set, severity, tag width, minimal width bucket, number of rest lines)."
          " The logger is put into its format in four ways (Set...Mode, option of New, option of New on a child of a parent in another format, With...Mode method); flags are set through all public ways."
          " Level colours may be changed with SetLevelColors; a record at the level value may be emitted before the custom levels are registered; a scratch record may be printed right before the record (as C04); 1 of 80 messages is 70-300 KB long."),
    assumptions=["ESC[0m / ESC[m reset the terminal state, every other ESC[...m sequence switches something on",
                 "built-in level tags are the table documented in slog/level.go (copied into the harness)"],
    stages=[
        dict(name="production", run="^TestColoredRecords$", mode="prod", quick=25000, thorough=700000, shards=16, timeout_thorough=3000),
        dict(name="testing", run="^TestColoredRecords$", quick=20000, thorough=700000, shards=16, timeout_thorough=3000),
        dict(name="fuzz", fuzz="FuzzColored", fuzztime=180),
    ],
)

PROPS["C09"] = dict(
    pkg="c09", level="exploration",
    technique="metamorphic property-based testing (rapid): the same explicit-timestamp call replayed after independently generated histories must give identical bytes; plus a cross-process differential (two fresh child processes, one with and one without a preceding history)",
    claim=("A generated probe call (any format, any severity incl. registered-with-colour, registered-without, unregistered, explicit "
           "timestamp, fixed caller pc, groups, errors, multi-line and buffer-growing messages, UTC mode) is emitted four times: first, "
           "after a generated history of 0-40 other calls (other loggers, formats, severities, sizes; optionally on three other goroutines with "
           "the last call on the probe's own goroutine), after a second history, and immediately again; all four payloads must be "
           "byte-identical. Process-lifetime state (anything initialised by the first record of a process) is covered by a cross-process stage: two "
           "fresh child processes draw the same probes from the same seed, one emits only the probes, the other a history before each; "
           "the probe payloads of both processes must be byte-identical (8 pairs of processes with 100 cases each in the quick tier, 32 x 1500 in the thorough tier: what the first use in a process decides gets one chance per pair). Exploration of sampled (history, probe) pairs."),
    note="sync.Pool reuse cannot be forced or observed from outside; the last history call runs on the probe's goroutine so that the probe normally picks up the context that call returned to the pool. GC may drop pooled objects (covered statistically).",
    rule=("rapid draws the probe and two histories. Non-trivial: a history contains a record longer than the probe, or of another format, or a "
          "colored record of another severity; distinct = (format, severity, named, caller, class set, lengths of both histories)."
          " Attribute keys include the reserved field names (time often holding a time.Time); the caller file may lie under two path mappings; the probe destination may be re-entrant (logs through another logger inside Write, for emissions 2 and 4). Second test: two levels registered identically must print identically whether or not one was logged while unregistered. A custom level with a foreground colour only is among the severities; histories contain calls with a value whose String method panics (recovered by the caller) and calls with a marshaller that consumes bytes of the encoder it is handed; history calls from the probe's own call site may run under an inverted privacy-path flag or a further path mapping (undone before the probe) or from another working directory; rarely a history record is longer than a megabyte; probes may have the privacy-path flag off. TestTimeLapse: the same call before and after a record issued 1.05 s later from another working directory. TestGrowthBoundaries: the same call printed by a context made afresh (pools emptied by two garbage collections, 1024-byte buffer that grows while the record is written) and by the warm one right after, for every padding that puts the growth point on another byte of the record, with and without a marshaller that has consumed bytes of the encoder; non-trivial there: a marshaller consumed bytes."),
    assumptions=["attributes are rebuilt from the same description for every emission (the encoder sorts argument slices in place)"],
    stages=[dict(name="history", run="^TestHistoryIndependence$", quick=8000, thorough=1200000, shards=16, timeout_thorough=3000),
            dict(name="registration", run="^TestRegistrationHistory$", quick=2000, thorough=400000, shards=8, timeout_thorough=3000),
            dict(name="crossprocess", run="^TestCrossProcess$", quick=1, thorough=1, timeout_thorough=3000),
            dict(name="timelapse", run="^TestTimeLapse$", quick=1, thorough=1),
            dict(name="growth", run="^TestGrowthBoundaries$", quick=24, thorough=2400, shards=16, timeout_thorough=3400)],
)

PROPS["C11"] = dict(
    pkg="c11", level="exploration",
    technique="model-based stateful property testing (rapid) against a three-state reference machine, plus exhaustive enumeration of short call histories; records classified by the independent decoders",
    claim=("Histories of SetJSONMode/SetColorMode/WithJSONMode/WithColorMode (zero, one or several booleans) and New(...) with the corresponding "
           "options over up to 5 loggers of one tree are run against a 3-state machine written from the statement; after every step the "
           "JSONMode/ColorMode getters of every logger must agree with the model and every probe record must be accepted by exactly the "
           "model's decoder (JSON object / SGR-coloured text / logfmt line). Every history up to length 5 (quick) or 7 (thorough) over the 8 "
           "basic calls on a parent/child pair is enumerated."),
    note="The shape classification is: starts with '{' and decodes as one JSON object = JSON; contains an SGR sequence = colored; otherwise must tokenise as logfmt starting with time=.",
    rule=("generated: 1-30 steps (set 50%, with/new 20%, probe 30%), boolean lists of length 0-3, then a probe of every logger. Non-trivial: some "
          "logger visited >= 2 states and >= 2 loggers exist; distinct = the history text. Enumerated: all index vectors; non-trivial: >= 2 states visited."
          " Probes rotate over seven severities incl. a level registered without colours and unregistered ones, and over eight attribute lists (error, []error, group, time/duration, nil/[]byte/[]string, struct/map/float/complex, none). Probe messages rotate over single-line, multi-line and LF-terminated ones. Long runs (255-131071) of one mode call between two probes; NO_COLOR=1 in the environment for a fifteenth of the cases."),
    assumptions=[],
    stages=[
        dict(name="enumerated", run="^TestEnumeratedHistories$", quick=1, thorough=1, timeout_thorough=3000),
        dict(name="generated", run="^TestGeneratedHistories$", quick=8000, thorough=1600000, shards=16, timeout_thorough=3000),
    ],
)

PROPS["C16"] = dict(
    pkg="c16", level="exploration",
    technique="property-based testing (rapid) against time.Time.Format with an own copy of the documented flag-to-layout table; parse-back with time.Parse",
    claim=("Generated instants (years -100..12000, boundary nanoseconds, UTC / fixed offsets at minute granularity / named tzdata zones incl. DST "
           "and half-hour zones) are logged under generated configurations (8 date/time/microsecond flag combinations, local-time flag, "
           "sequences of SetUTCMode calls with 0-3 booleans as methods or options, no layout / SetTimeFormat() / 14 custom layouts incl. empty "
           "arguments, three formats, through WriteThru and through the log/slog adapter); the printed time field must equal "
           "instant.In(zone).Format(layout) computed by the harness, and must parse back with that layout to the instant truncated to the "
           "layout's precision where the layout has date, time and a numeric offset."),
    note="Parse-back is skipped for layouts with zone abbreviations (MST), for years outside 0..9999 and for zones whose offset has seconds (historical local mean time) - all limitations of package time's layouts, not of the logger.",
    rule=("rapid draws the scenario. Non-trivial: a non-UTC zone, or a custom layout, or sub-microsecond digits; distinct = (format, path, flags, "
          "local-time flag, UTC mode, layout, zone kind, millennium)."
          " Flags are set through SetFlags, Reset+Add/Remove, inside a SaveFlagsAndMod scope or after its restore function (a record is emitted under the other flag set first); special instants (time.Time{}, Unix epoch, year 9999) are mixed in; two layouts have non-ASCII literal text."),
    assumptions=["time/tzdata embedded in the harness binary provides the named zones"],
    stages=[dict(name="timestamps", run="^TestTimestamps$", quick=40000, thorough=12000000, shards=16, timeout_thorough=3000)],
)

PROPS["C17"] = dict(
    pkg="c17", level="exploration",
    technique="model-based stateful property testing (rapid) of RegisterLevel histories against a reference registry; round-trip properties for every known level",
    claim=("Generated histories of RegisterLevel calls (values negative / colliding with built-ins / 12..40 / huge, titles fresh or equal to a "
           "built-in name, alias or earlier title in another case, every option combination, partially empty tag tables) interleaved with "
           "lookups are run against a model registry: a call must be refused iff its value or exact title is in use (either outcome is "
           "accepted for a title that differs only by case), a refusal must leave a fingerprint of every observable (AllLevels, names, text "
           "marshalling, short tags, parse results, gating, routing) unchanged, and after a success every known level still satisfies: "
           "String()==title, ParseLevel(String())==level, text and JSON round trips (direct and through encoding/json in a struct), custom tag "
           "or exactly n characters for ShortTag(1..5), gating as the treated-as level, routing to the error writers iff requested."),
    note="Titles are 1-12 ASCII letters, some with ASCII punctuation incl. quote and backslash, some padded with blanks (ShortTag length is defined on bytes); treated-as targets Panic..Trace; the registry is restored between cases by the verif hook.",
    rule=("rapid draws 1-8 steps (3/4 registrations, 1/4 lookups of a known level). Non-trivial: the history contains a refused registration, a "
          "case-variant title or a successful registration; distinct = the history text. The slices MarshalText / MarshalJSON return are overwritten by the caller before the next call (they must be the caller's own)."),
    assumptions=["gating and routing oracles are those of C01 and C03"],
    stages=[
        dict(name="builtins", run="^TestBuiltinRoundTrips$", quick=1, thorough=1),
        dict(name="histories", run="^TestRegistryHistories$", quick=6000, thorough=1500000, shards=16, timeout_thorough=3000),
    ],
)

PROPS["C18"] = dict(
    pkg="c18", level="exploration",
    technique="property-based testing (rapid) of generated mapping tables and paths against an order-exhaustive reference of the replacement policy; 16 evaluations per case to sample Go's map iteration order; native fuzzing for the no-panic clause",
    claim=("Tables are generated by add/remove histories (home and cwd always present at first; nested, ancestor, sibling and chained mappings; "
           "tilde, variable, short and long absolute replacements; regexp mappings), both privacy flags are toggled, and generated paths "
           "(under one/several/no mapping, exactly a prefix, relative, /Volumes, textual look-alikes, arbitrary bytes) are passed to Safety and "
           "SafetyFiles 16+1 times. Every result must be a member of the set the harness computes by walking the table once in every possible "
           "order with a leading, component-wise prefix replacement; a protected prefix must never come through; paths outside all mappings "
           "must come back unchanged or as a shorter equivalent relative path; nothing may panic. The caller.file of records emitted in all "
           "three formats from a harness call site, under mappings over ancestors of the harness's source directory, must satisfy the same predicate."),
    note="Not asserted (labelled only): textual look-alike prefixes (/rootkit vs /root) and paths in which a prefix re-occurs inside; when a regexp mapping or the /Volumes rule can interfere only the prefix rule and no-panic are asserted; removal of the home/cwd mapping is only exercised in the caller-field test (cwd). Mappings onto their own prefix and cyclic mapping chains are not generated; when a registered replacement itself lies under a protected prefix, that prefix may show (the user asked for it).",
    rule=("rapid draws 0-6 table operations, the two flags and 1-4 paths. Non-trivial: >= 2 applicable mappings, or an absolute replacement, or a "
          "remove before the query; distinct = (table history, flags, paths)."
          " A quarter of the mappings are registered with a trailing separator; flags are set through all public ways. The caller-field test emits one or two records from the same call statement, the privacy flag drawn anew for each; table histories contain the general reset functions (Reset, ResetFlags, ResetLevel), which must leave the path tables alone; the working directory may be changed during a case; the bare /Volumes shapes and directory names of 60-140 bytes are generated; the caller-field test adds and removes regexp mappings matching the harness file between records of one call site. Paths that no prefix mapping applies to and that a registered regexp mapping matches (generated in the shapes the patterns are written for) must equal the regexp rewrites applied in registration order; RemoveKnownPathRegexpMapping removes the first entry with that expression."),
    assumptions=["HOME and the working directory of the harness process are the home/cwd the package captured at init"],
    stages=[
        dict(name="safety", run="^TestSafety$", quick=15000, thorough=600000, shards=16, timeout_thorough=3000),
        dict(name="callerfield", run="^TestCallerField$", quick=5000, thorough=600000, shards=16, timeout_thorough=3000),
        dict(name="fuzz", fuzz="FuzzSafety", fuzztime=120),
    ],
)

PROPS["C14"] = dict(
    pkg="c14", level="exploration",
    technique="enumeration of a generated call-site table (one function per public entry point) x formats x logger kinds x skip counts x wrapper chains, compared with runtime.Callers at the issuing statement; rapid sampling of the same space; two builds (default and -gcflags=all=-l)",
    claim=("For each of 66 entry points (11 verbs, their Context variants, Println/PrintlnContext, LogAttrs/Logit/Log, Infof/Warnf/Errorf, the "
           "package-level functions and Context functions on the default logger, log/slog Logger.Info/Warn/InfoContext/Log/LogAttrs and package-level "
           "log/slog functions on the adapter, log.Logger.Print/Printf/Println on the bridge), in three formats, on root/child/default loggers, "
           "with skip 0..4 set by WithSkip or SetSkip and wrapper chains of depth skip or 4 (//go:noinline recursion, or small inlinable "
           "functions), the decoded caller file/line/function must be those of the statement skip frames above the call, as recorded by the "
           "harness with runtime.Callers on the preceding source line. The whole matrix (~23k cells) runs in every tier; the thorough tier "
           "repeats it in a binary built without inlining."),
    note="Expected file is slog.Safety(file) (C18 owns the path policy); colored mode prints the function without its package path. log.Logger.Output called directly, goroutine entry points, deferred calls and cgo callers are not built.",
    rule=("matrix enumeration plus rapid sampling (privacy flags toggled). Non-trivial: skip >= 1, or an entry point that is not a method of the "
          "logger (package-level, adapter, bridge); distinct = the cell."
          " Also: log/slog Loggers derived with With/WithGroup, an earlier SetSkip before the final one, a sibling WithSkip child created afterwards, a SetSkip issued after an adapter/bridge was built on the logger, flags set through all public ways. 21 of the 87 call sites are further argument shapes of the same entry points (plain operands, dangling key, non-string first argument, no arguments, Attr/Group arguments, multi-line message) or carry an error value with a stack trace of its own; sampled cases run the issuing statement 1-3 times in a row, every record checked; 4 sites sit in package-level func literals. TestManyCallSites: every site logs twice in three formats before and after 6000 records from distinct valid program counters."),
    assumptions=["runtime.Callers / CallersFrames give the true logical frames (also for inlined functions)"],
    stages=[
        dict(name="matrix", run="^TestMatrix$", quick=1, thorough=1),
        dict(name="many-sites", run="^TestManyCallSites$", quick=1, thorough=1),
        dict(name="sampled", run="^TestSampled$", quick=10000, thorough=2400000, shards=16, timeout_thorough=3000),
        dict(name="matrix-noinline", run="^TestMatrix$", tier="thorough", thorough=1, gcflags="all=-l"),
        dict(name="sampled-noinline", run="^TestSampled$", tier="thorough", thorough=800000, shards=16, gcflags="all=-l"),
    ],
)

PROPS["C15"] = dict(
    pkg="c15", level="exploration",
    technique="property-based testing (rapid) of generated log/slog records and handler derivation chains against an expected attribute tree decoded with the independent parsers; all (logger level, bridge severity) pairs for the std log bridge; enumeration of log/slog level values for Logger.Log",
    claim=("(a) Records with any level in -20..20, explicit time, any message and attributes of every log/slog kind (Bool, Int64, Uint64, Float64, "
           "String, Time, Duration, Group nested to depth 3, LogValuer also inside groups, Any with errors, []byte, slices, structs, nil) are "
           "sent through a log/slog.Logger or directly to Handler.Handle, on handlers derived by chains of 0-4 WithAttrs/WithGroup steps over a "
           "logger at any of the 12 levels (set directly or through HandlerOptions); exactly one record must reach the underlying logger's own "
           "writers, in its format, carrying the message, the record's time, the namesake level for Debug/Info/Warn/Error (never a terminating "
           "one for other values) and exactly the expected tree (WithAttrs content at its depth, everything after WithGroup(g) nested under g); "
           "Enabled must equal the C01 rule on the namesake. (b) the std log bridge for all 144 (logger level, bridge severity) pairs and "
           "messages with 0-2 trailing newlines: one record with the message minus one trailing newline at the bridge severity iff the C01 rule "
           "admits it. (c) Logger.Log for every log/slog level -40..40."),
    note="Attribute keys are non-empty and unique per nesting level (log/slog's own rules for empty keys/inline groups are not modelled); colored format is only checked for 'one record on the right writer'; n/err of the bridge writer are not observable through log.Logger.",
    rule=("rapid draws the scenario. Non-trivial (handler): a derivation chain of length >= 1, a group / LogValuer / Any attribute, or a "
          "non-standard level; distinct = (format, logger level, slog level, chain length, class set, path, emitted). Bridge: every case is "
          "keyed by (level, severity, admitted, call, newline count)."
          " Every intermediate handler also gets decoy siblings derived after the real one; 1-3 records go through the same handler; the logger's level may change after the bridge was built; up to 7 WithAttrs steps; record attributes may collide with handler attribute keys (last wins; effectively empty groups under a handler key are not generated); JSON records may carry one attribute with an empty key and a non-zero value; the underlying logger may have attributes of its own under keys the record carries (the record's values must be printed)."),
    assumptions=["log/slog of the building toolchain constructs the records"],
    stages=[
        dict(name="levels", run="^TestLogLevelMapping$", quick=1, thorough=1),
        dict(name="handler", run="^TestHandler$", quick=20000, thorough=4000000, shards=16, timeout_thorough=3000),
        dict(name="bridge", run="^TestBridge$", quick=10000, thorough=1600000, shards=16, timeout_thorough=3000),
    ],
)

PROPS["C10"] = dict(
    pkg="c10", level="exploration",
    technique="model-based stateful property testing (rapid): generated histories of New/With*/Set*/package-level calls over a growing forest against a reference tree model, all loggers re-checked after every step; stress test for anonymous children; production and testing binaries",
    claim=("Histories of 3-40 operations on randomly chosen loggers of a growing forest (package-level New named/anonymous with options, New on "
           "a logger with a fresh name, the name of an existing named or anonymous child, \"\" or no argument, every With* and every Set* for "
           "level, JSON/colour mode, UTC mode, time format, attrs (3 forms), skip, context keys, writers, package-level SetLevel, probes) are "
           "run against a tree model. After EVERY step every logger's Level/JSONMode/ColorMode/Skip/Name/Parent/Root must equal the model; "
           "Each and Sublogger are checked from sampled nodes every 5th step and from every root at the end; at the end (and at probe steps) "
           "each logger emits records through its own private writer, which must arrive only there, in the model's format, admitted by the "
           "model's level, carrying the model's name, own and (with the flag) inherited attributes, and the model's time zone mode and layout. "
           "New(existing name) must return the very same child; With* must return a logger that did not exist (WithSkip: one per n); Set* must "
           "return the receiver. 20k (quick) / 200k (thorough) consecutive With* calls must give as many distinct children."),
    note="Each case installs a fresh default logger (the process-wide one keeps children of earlier cases and has no public reset). Every logger gets private recording writers right after creation (child loggers do not inherit writers). The wall clock seeding the anonymous names cannot be owned by the harness: covered by the stress test. The production-binary stage checks the Warn default level.",
    rule=("rapid draws the history. Non-trivial: >= 3 loggers and (a With* and a Set* occurred, or New was called with the name of an existing "
          "child); distinct = the history text."
          " Child names may repeat names used elsewhere in the forest; the package default level is modelled (changed by the package-level SetLevel only, compared with GetLevel after every step); attrs1 settings may hand the same Attrs value (drawn from a pool with spare capacity) to several loggers, also as ONE argument of Set / With; anonymous New(...) may carry options only; SetSkip is drawn on kept WithSkip children and the parent is asked for the same count again (the kept child carries it again); every argument slice is overwritten after the call that received it returned; TestManyChildren: 1-1100 named and WithSkip children per logger (lookup of earlier children after every creation, Each, Sublogger); writers are installed with Set* or with Add* on top of the inherited defaults."),
    assumptions=["gating oracle = C01 rule incl. the debug-mode side effect of SetLevel(Debug)", "record decoding = C04/C05 decoders, merge = C07 reference"],
    stages=[
        dict(name="testing", run="^TestHierarchy$", quick=4000, thorough=800000, shards=16, timeout_thorough=3000),
        dict(name="production", run="^TestHierarchy$", mode="prod", quick=2000, thorough=400000, shards=16, timeout_thorough=3000),
        dict(name="stress", run="^TestAnonymousChildrenDistinct$", quick=1, thorough=1, timeout_thorough=3000),
        dict(name="many-children", run="^TestManyChildren$", quick=1, thorough=1),
        dict(name="anonymous", run="^TestManyAnonymousChildren$", quick=1, thorough=1),
        dict(name="shared-args", run="^TestSharedArgumentSlices$", quick=1, thorough=1),
    ],
)

PROPS["C08"] = dict(
    pkg="c08", level="exploration",
    technique="property-based generation (rapid) of concurrent workloads executed under the Go race detector, with a per-record oracle (every payload decoded and compared with the call that carries its unique id; multiset of delivered ids = admitted calls)",
    claim=("rapid draws workloads: 1-8 loggers (roots and children, JSON/logfmt/colored, with own attributes and/or one Group value shared by "
           "several loggers), G in {2..64} goroutines x up to 200 calls, calls at four severities (one not admitted), per-call attributes, the "
           "same shared Group value passed by all goroutines, multi-line messages, error values with stack, GOMAXPROCS in {2,4,16}, recording "
           "writers that yield the processor on a generated pattern. The binary is built with -race: any race report fails the run. Every "
           "observed Write payload must be the complete record of exactly one admitted call (decoded with the C04/C05 decoders, colored via "
           "stripped text) on the right logger's writer, and the ids seen must equal the admitted calls exactly once each. A second stage "
           "stresses G=64 with larger N, also without the race detector."),
    note="WEAKEST claim of the set: interleavings are sampled by the Go scheduler, not enumerated or controlled; the race detector only reports races on executed paths. Concurrent reconfiguration while logging is outside the claim and never generated. A race report cannot be shrunk by rapid (it is attributed to the whole test); the replay re-runs the stage with the same seed.",
    rule=("Non-trivial: >= 2 goroutines share a logger and a group value or logger attributes or a parent/child pair are involved; distinct = "
          "(formats present, sharing shape, G bucket, number of loggers, GOMAXPROCS, multi-line)."
          " Workloads may contain blank Print/Println calls (counted), loggers with context keys (every call carries its own context values) and custom levels registered for the case (one per goroutine); the Group value shared by the callers must be unmodified afterwards. Some calls are plain verb methods without any argument; some pass a group of their own under the key of the logger-level shared group (the call's group wins); the shared group has a sub-group in key order with a repeated key and is compared by value afterwards; argument-less calls use Infof/Warnf/Errorf half of the time; a logger may have 1100 own attributes. Records may also arrive through log/slog adapters and std log bridges built before or after the loggers were configured, through per-level writers, and with attribute values of several kilobytes."),
    assumptions=["the recording writers are mutex-protected and copy the payload before returning"],
    stages=[
        dict(name="race", run="^TestConcurrentWorkloads$", race=True, crash_is_violation=True, quick=400, thorough=16000, shards=8, timeout_quick=900, timeout_thorough=3000),
        dict(name="shared-values", run="^TestSharedValues$", race=True, crash_is_violation=True, quick=150, thorough=8000, shards=8, timeout_quick=900, timeout_thorough=3000),
        dict(name="race-stress", run="^TestStress$", race=True, crash_is_violation=True, quick=10, thorough=400, shards=8, timeout_quick=900, timeout_thorough=3000),
        dict(name="norace-stress", run="^TestStress$", crash_is_violation=True, quick=30, thorough=2000, shards=8, timeout_thorough=3000),
    ],
)

# ---- additions of the ninth seeded round (the public API surface), appended to the rule texts ----
_ROUND9 = {
    "C02": " The normal or error writers may be handed over as ONE value of the exported list type slog.LWs (a hand-made list of NewLogWriter handles, or what GetWriter() of another logger returns): every member still gets the record in exactly one Write.",
    "C04": " Fallback kinds include user types with the exported LogValuer interface (standing for a plain attribute or a group). One severity is a level registered under a drawn title that may need escaping (quote, backslash, CR/LF, ESC).",
    "C05": " Fallback kinds include user types with the exported LogValuer interface. One severity is a level registered under a drawn title that may need quoting (quote, backslash, CR/LF, blank, '=', ESC): the level field must read back as that title.",
    "C06": " The hygiene class draws, besides all value kinds, the package documentation's sample marshaller (Begin, AddString, AddComma, AddInt64, End) with hostile strings.",
    "C08": " Stage shared-values (TestSharedValues, -race): values shared by the goroutines in every position the API allows (a Group as the value of a pair / of an Attr / inside an Attrs value / in a slice of groups, 2-64 members); the same calls with explicit times are made by one goroutine first and the multiset of payloads of the concurrent run must equal that reference; nobody may write to the shared values.",
    "C10": " Lookups by name carry options in every other case (New(existing, opts...)): the existing child is returned as it is.",
    "C11": " Children are also obtained through WithSkip(n) (the library keeps one child per count and hands it out again: its format is its own by then).",
    "C13": " Destinations are handed over as slog.NewLogWriter handles in one case of four; records are issued through LogAttrs, through the std log bridge NewLogLogger(logger, severity).Print, or through WriteInternal (the half behind the gate: always admitted). Every call runs under a 60 s watchdog: a call that does not return is a violation.",
    "C15": " The bridge is also used as a plain io.Writer: a stream of 1-4 messages is copied to NewLogLogger(...).Writer() with io.Copy and every message must be a record. The handler is built on a user-defined decorator struct{ slog.Logger } in one case of four.",
    "C17": " A request for the error device is written in the three forms the variadic option allows ((true), () as documented, (false, true)), its absence as no option, (false) or (true, false). Every known level is probed through LogAttrs, Logit and NewLogLogger(logger, level).Print: routing and the level field (the title) must agree for all three.",
    "C18": " Regexp mappings may be registered twice with different replacements and removed once. For every caller-field case, Source.Extract for a frame of the same file and the origin of an errors.v3 error created in that file (err.trace.file in JSON, the file/line line of the dump in text) must report the file exactly as the caller field does.",
    "C19": " Inside real records: what a marshaller leaves unread must still be the front of the encoder when the next marshaller of the record (or a final sentinel marshaller) is entered, with strings of 5-4500 bytes printed in between and records printed by contexts made afresh (1024-byte buffers that grow on the way).",
    "C20": " MustParseDuration, the parser's twin without an error result, must agree with ParseDuration on every accepted text (round trips and differential).",
}
_ROUND10 = {
    "C03": " Stage lists (TestListDestinations): a destination may be a list of writers - what GetWriter()/GetWriterBy(l) of another logger hand out, or a hand-made slog.LWs of NewLogWriter handles: every member gets the record once and a level-settable member is told the severity immediately before its Write.",
    "C04": " Time values include the zero time.Time, the Unix epoch and their neighbours (1 case of 16).",
    "C10": " Attribute, key/value and context-key lists may be empty (With(), WithAttrs(), WithContextKeys(): still a new child).",
    "C17": " Custom short tags may have any length (a given tag is used as given).",
}
_ROUND11 = {
    "C10": " Stage shared-args (TestSharedArgumentSlices, directed): for each of the eight setters/builders that take a list, two fresh loggers get the same list value (spare capacity), one more attribute each, then the caller overwrites the list: each logger prints exactly its own. Stage anonymous (TestManyAnonymousChildren): 250000 (thorough: 600000) anonymous children of one parent through WithLevel / New() / WithJSONMode / WithUTCMode: every call hands out a new child although the short random names repeat (about 2.1e9 possible names: some 15 repetitions are expected), and Each visits them all.",
    "C01": " In half of the cases (and in extra cells of the exhaustive matrix) the logger answers Enabled questions and prints records BEFORE each change of the debug mode: what it remembers of its answers is then out of date.",
    "C03": " Pool member 0 is handed over as a writer of a value type (a small struct by value) in every third case. A history may register one more level for the error device in the middle (step register), sandwiched by probes at that level on a logger that has logged already.",
    "C04": " Before the record under test: the same record printed in the other formats (1 case of 4), a record whose loose pairs repeat a key (1 of 6); a logger with own attributes prints the record twice and the second one is judged.",
    "C05": " Before the record under test: the same record printed in the other formats (1 case of 4), a record whose loose pairs repeat a key (1 of 6); a logger with own attributes prints the record twice and the second one is judged.",
    "C09": " The two-mappings scenario also runs with a table of exactly the two mappings. Probes may be ordinary calls with loose key/value pairs (year-only time layout) instead of handed-through records; histories contain records whose loose pairs repeat a key.",
    "C13": " Every level-settable destination must be told the severity immediately before each Write - the record's own, Warn for the diagnostic. Between the faulty phase and the suffix a destination may be withdrawn with the matching Remove call (it must get nothing afterwards) and the logger's level may change (the suffix is judged under the new one).",
    "C14": " With a late SetSkip, records may go through the logger, the handler, a derived handler and the bridge BEFORE the skip count changes.",
    "C15": " The process-wide debug mode may change between two records of one handler (is.SetDebugMode, or another logger's SetLevel(Debug)).",
    "C16": " In a third of the cases the logger prints records in all three formats before its zone mode and layout are set in place.",
    "C18": " The generated paths are also asked about INSIDE the SaveFlagsAndMod scopes through which the flags are set (other privacy flags in force there).",
}
_ROUND14 = {
    "C02": " The process-wide debug mode is read (is.DebugMode()) when admission is judged; how it gets switched is C01's subject.",
    "C03": " A writer registered k > 1 times in the selected list gets the record at least once and at most k times (the statement speaks of the selected SET; whether a duplicate registration is kept or folded it leaves open).",
    "C10": " The process-wide debug mode is read (is.DebugMode()) when admission is judged. The time style of a new child is not assumed until it is set.",
    "C13": " The process-wide debug mode is read when admission is judged. A writer registered k > 1 times gets the record 1..k times; only a destination listed once is withdrawn. A WriteInternal call on a logger whose level refuses the severity either reaches every selected destination or none.",
    "C15": " The process-wide debug mode is read when admission is judged. A record of a level without a namesake may be dropped by an Off logger (C01: an Off logger admits nothing); a record handed to Handle directly at a refused standard level may be dropped or written.",
    "C17": " The process-wide debug mode is read when the gate model is consulted.",
    "C18": " Names of the shapes the regexp mappings are written for are also drawn as relative names.",
}
for _pid, _txt in _ROUND14.items():
    _ROUND9[_pid] = _ROUND9.get(_pid, "") + _txt
_ROUND15 = {
    "C02": " An admitted call whose message is blank in no reading (control characters are not white space; messages of control characters only are drawn) must give each destination more than the bare newline. First arguments of Println include typed nil pointers, pointers to nil pointers and nil maps / slices / funcs / channels.",
    "C04": " Disturbance 9 (1 case of 8): records from a logger whose skip count lies beyond the stack, caller info on, in the three formats, before the record under test.",
    "C05": " Disturbance 9 (1 case of 8): records from a logger whose skip count lies beyond the stack, caller info on, in the three formats, before the record under test.",
    "C06": " Disturbance 9 (1 case of 8): records from a logger whose skip count lies beyond the stack, caller info on, in the three formats, before the record under test.",
    "C07": " Disturbance 9 (1 case of 8): records from a logger whose skip count lies beyond the stack, caller info on, in the three formats, before the record under test.",
    "C10": " A logger whose time style the model does not know is watched all the same: how it printed the probe instant is remembered and must stay the same until one of its own time settings changes.",
    "C13": " Failure kind 7: every failing Write returns an error text of its own (several destinations failing on one record: still one diagnostic).",
    "C16": " In half of the cases a record of a neighbouring instant (1 ns to just under 1 s away) is printed first through the same logger. SetTimeFormat() or SetTimeFormat(\"\") is called before the call that gives the layout in two cases of five.",
}
for _pid, _txt in _ROUND15.items():
    _ROUND9[_pid] = _ROUND9.get(_pid, "") + _txt
for _pid, _txt in _ROUND11.items():
    _ROUND9[_pid] = _ROUND9.get(_pid, "") + _txt
for _pid, _txt in _ROUND10.items():
    _ROUND9[_pid] = _ROUND9.get(_pid, "") + _txt
for _pid, _txt in _ROUND9.items():
    PROPS[_pid]["rule"] = PROPS[_pid]["rule"] + _txt
