"""Per-property configuration of ./check: packages, stages, case counts, evidence texts."""

PROPS = {}

PROPS["C19"] = dict(
    pkg="c19", level="exploration",
    technique="stateful differential property-based testing (rapid) against bytes.Buffer + native fuzzing via rapid.MakeFuzz",
    claim=("Generated operation sequences (tens of thousands in quick, millions in thorough) are executed on PrintCtx and on "
           "bytes.Buffer in lock-step and every result, error class, panic and the remaining contents are compared after every "
           "step. This is exploration, not proof: equivalence is shown for the sampled sequences only."),
    note="bytes.Buffer of the building toolchain is the trusted reference; sizes between 5000 bytes and MaxInt-70000 are not generated (real allocations).",
    rule=("rapid draws a start state (nil / zero value / pre-filled len<cap / len==cap / string / empty with capacity) and 1..40 "
          "operations of the 20 listed methods with sizes around 0, 64, 512, 1024, 2048 and MaxInt; each is applied to a "
          "PrintCtx and to a bytes.Buffer in lock-step. Non-trivial: the sequence has a read-type operation after a "
          "write-type one and more than 64 bytes were written (so growth/slide code ran); distinct = distinct (start kind, "
          "operation-kind sequence)."),
    assumptions=["bytes.Buffer of the toolchain that builds the harness is the reference",
                 "panic values are compared by class (too-large / error / other), not by wording",
                 "Cap/Available/AvailableBuffer are not part of the listed interface and are not compared"],
    stages=[
        dict(name="differential", run="^TestBufferDifferential$", quick=60000, thorough=4000000, shards=16,
             timeout_quick=600, timeout_thorough=3000),
        dict(name="fuzz", fuzz="FuzzBufferDifferential", fuzztime=120),
    ],
)
