// C11 — output format is a per-logger three-state machine; getters and bytes agree.
package c11

import (
	"bytes"
	"context"
	"errors"
	"fmt"
	"os"
	"strings"
	"testing"
	"time"

	"github.com/hedzr/logg/slog"
	"github.com/hedzr/logg/slog/verifharness/vlib"
	"pgregory.net/rapid"
)

func TestMain(m *testing.M) { vlib.Main(m) }

type state int

const (
	stColor state = iota
	stLogfmt
	stJSON
)

func (s state) String() string { return [...]string{"colored", "logfmt", "json"}[s] }

// transition is the machine written from the statement. no argument means true;
// of several booleans the last one counts.
func transition(s state, op string, bools []bool) state {
	mode := true
	for _, b := range bools {
		mode = b
	}
	switch op {
	case "json":
		if mode {
			return stJSON
		}
		if s == stJSON {
			return stLogfmt
		}
		return s
	case "color":
		if mode {
			return stColor
		}
		return stLogfmt
	}
	return s
}

type step struct {
	Kind   string // set | with | new | probe
	Op     string // json | color
	Bools  []bool
	Logger int
	Opts   []step // for new: options
	Times  int    // for set: the call is made this many times in a row (0/1: once): counters must not wrap into an old state
	Skip   int    // for withskip: the count handed to WithSkip (the library keeps one child per count and hands it out again)
}

func (s step) String() string {
	switch s.Kind {
	case "probe":
		return fmt.Sprintf("L%d.probe", s.Logger)
	case "new":
		return fmt.Sprintf("L%d.New(opts=%v)", s.Logger, s.Opts)
	case "opt":
		return fmt.Sprintf("With%sMode%v", s.Op, s.Bools)
	case "with":
		return fmt.Sprintf("L%d.With%sMode%v", s.Logger, s.Op, s.Bools)
	case "withskip":
		return fmt.Sprintf("L%d.WithSkip(%d)", s.Logger, s.Skip)
	}
	return fmt.Sprintf("L%d.Set%sMode%v", s.Logger, s.Op, s.Bools)
}

type world struct {
	loggers []slog.Logger
	states  []state
	log     *vlib.EventLog
	w       vlib.Writer
	skipKid map[[2]int]int // (logger, skip count) -> index of the child WithSkip handed out
}

func newWorld() *world {
	_ = slog.RegisterLevel(slog.Level(41), "plainforty") // registered, no colours, no tags
	wd := &world{log: vlib.NewEventLog(), skipKid: map[[2]int]int{}}
	wd.w = vlib.NewRec(wd.log, 1, 0)
	root := slog.New("root")
	wd.add(root, stColor)
	return wd
}

func (wd *world) add(l slog.Logger, s state) {
	l.SetWriter(wd.w)
	l.SetErrorWriter(wd.w)
	l.SetLevel(slog.AlwaysLevel)
	wd.loggers = append(wd.loggers, l)
	wd.states = append(wd.states, s)
}

func classify(p []byte) string {
	accept := []string{}
	if bytes.HasPrefix(p, []byte("{")) {
		if _, err := vlib.DecodeJSONRecord(p); err == nil {
			accept = append(accept, "json")
		}
	}
	if bytes.Contains(p, []byte("\x1b[")) {
		accept = append(accept, "colored")
	} else if !bytes.HasPrefix(p, []byte("{")) {
		line := p
		if k := bytes.IndexByte(p, '\n'); k >= 0 && !vlib.ProductionMode() {
			line = p[:k+1] // under go test an error value is followed by its multi-line dump (exempt, see C05)
		}
		if pairs, err := vlib.ParseLogfmtRecord(line); err == nil && len(pairs) >= 3 && pairs[0].Key == "time" {
			accept = append(accept, "logfmt")
		}
	}
	return strings.Join(accept, "+")
}

func (wd *world) checkGetters(t vlib.TB, hist func() string) {
	for i, l := range wd.loggers {
		s := wd.states[i]
		if l.JSONMode() != (s == stJSON) || l.ColorMode() != (s == stColor) {
			t.Fatalf("C11 after [%s]: logger L%d should be %v but JSONMode()=%v ColorMode()=%v", hist(), i, s, l.JSONMode(), l.ColorMode())
		}
	}
}

// severities of the probes: built-in ones, one registered without colours, one never registered
var probeSevs = []slog.Level{slog.InfoLevel, slog.ErrorLevel, slog.DebugLevel, slog.AlwaysLevel, slog.Level(41), slog.Level(77), slog.Level(-3)}
var probeCounter int

// attribute lists of the probes (the shape of a record must not depend on the kinds of its values)
var probeArgs = [][]any{
	{"k", 1, "s", "v"},
	{"err", errors.New("plain error")},
	{"errs", []error{errors.New("e1"), errors.New("e2")}, "none", []error{}},
	{slog.Group("g", "a", 1, "b", "two"), "after", true},
	{"t", time.Unix(1700000000, 0).UTC(), "d", 1500 * time.Millisecond, "ts", []time.Time{time.Unix(1, 0).UTC()}},
	{"nil", nil, "bytes", []byte("raw"), "strs", []string{"a", "b c"}},
	{"st", struct{ A int }{1}, "m", map[string]int{"x": 1}, "f", 1.5, "c", complex(1, 2)},
	{},
}

func (wd *world) probe(t vlib.TB, i int, hist func() string) {
	before := wd.log.Len()
	probeCounter++
	sev := probeSevs[probeCounter%len(probeSevs)]
	args := probeArgs[probeCounter%len(probeArgs)]
	msg := []string{"format probe", "format probe\nwith a second line\nand a third", "format probe", "format probe\n"}[probeCounter%4]
	wd.loggers[i].LogAttrs(context.Background(), sev, msg, args...)
	evs := wd.log.Snapshot()[before:]
	if len(evs) != 1 {
		t.Fatalf("C11 harness: expected one record, got %d", len(evs))
	}
	if got := classify(evs[0].Payload); got != wd.states[i].String() {
		t.Fatalf("C11 after [%s]: logger L%d should be %v but its record (severity %d) has the shape of %q: %q", hist(), i, wd.states[i], int(sev), got, evs[0].Payload)
	}
}

func apply(l slog.Logger, op string, bools []bool, with bool) *slog.Entry {
	switch {
	case op == "json" && !with:
		return l.SetJSONMode(bools...)
	case op == "json":
		return l.WithJSONMode(bools...)
	case !with:
		return l.SetColorMode(bools...)
	default:
		return l.WithColorMode(bools...)
	}
}

func (wd *world) exec(t vlib.TB, s step, hist func() string) {
	switch s.Kind {
	case "set":
		for i := 1; i < s.Times; i++ {
			apply(wd.loggers[s.Logger], s.Op, s.Bools, false)
		}
		apply(wd.loggers[s.Logger], s.Op, s.Bools, false)
		wd.states[s.Logger] = transition(wd.states[s.Logger], s.Op, s.Bools)
	case "with":
		child := apply(wd.loggers[s.Logger], s.Op, s.Bools, true)
		wd.add(child, transition(wd.states[s.Logger], s.Op, s.Bools))
	case "new":
		args := []any{fmt.Sprintf("n%d", len(wd.loggers))}
		st := wd.states[s.Logger]
		for _, o := range s.Opts {
			if o.Op == "json" {
				args = append(args, slog.WithJSONMode(o.Bools...))
			} else {
				args = append(args, slog.WithColorMode(o.Bools...))
			}
			st = transition(st, o.Op, o.Bools)
		}
		wd.add(wd.loggers[s.Logger].New(args...), st)
	case "withskip":
		// a child obtained through another builder: it starts in its parent's format; asking for it again hands out
		// the same child, whose format is its own business by then
		child := wd.loggers[s.Logger].WithSkip(s.Skip)
		if idx, ok := wd.skipKid[[2]int{s.Logger, s.Skip}]; !ok {
			wd.add(child, wd.states[s.Logger])
			wd.skipKid[[2]int{s.Logger, s.Skip}] = len(wd.loggers) - 1
		} else if slog.Logger(child) != wd.loggers[idx] {
			wd.add(child, wd.states[s.Logger]) // another child (C10's business): it is a new logger then
			wd.skipKid[[2]int{s.Logger, s.Skip}] = len(wd.loggers) - 1
		}
	case "probe":
		wd.probe(t, s.Logger, hist)
	}
	wd.checkGetters(t, hist)
}

func genBools() *rapid.Generator[[]bool] {
	return rapid.OneOf(
		rapid.Just([]bool(nil)),
		rapid.SliceOfN(rapid.Bool(), 1, 1),
		rapid.SliceOfN(rapid.Bool(), 1, 1),
		rapid.SliceOfN(rapid.Bool(), 2, 3),
	)
}

var caseSerial int

func TestGeneratedHistories(t *testing.T) {
	rapid.Check(t, func(t *rapid.T) {
		defer vlib.Canon()()
		caseSerial++
		wd := newWorld()
		var hist []string
		h := func() string { return strings.Join(hist, "; ") }
		n := rapid.IntRange(1, 30).Draw(t, "steps")
		visited := map[int]map[state]bool{0: {stColor: true}}
		touched := map[int]bool{}
		burst := false
		if rapid.IntRange(0, 14).Draw(t, "noColorEnv") == 0 {
			// the environment asks programs for plain output: a logger's format is still what its mode calls made it
			_ = os.Setenv("NO_COLOR", "1")
			defer os.Unsetenv("NO_COLOR")
			hist = append(hist, "env NO_COLOR=1")
		}
		for i := 0; i < n; i++ {
			var s step
			s.Logger = rapid.IntRange(0, len(wd.loggers)-1).Draw(t, "logger")
			k := rapid.IntRange(0, 9).Draw(t, "kind")
			switch {
			case k <= 4:
				s.Kind = "set"
			case k == 5 && len(wd.loggers) < 5:
				s.Kind = "with"
			case k == 6 && len(wd.loggers) < 5:
				s.Kind = "new"
				for j := rapid.IntRange(0, 3).Draw(t, "nopts"); j > 0; j-- {
					s.Opts = append(s.Opts, step{Kind: "opt", Op: rapid.SampledFrom([]string{"json", "color"}).Draw(t, "optop"), Bools: genBools().Draw(t, "optbools")})
				}
			case k == 7 && len(wd.loggers) < 7:
				s.Kind = "withskip"
				s.Skip = 1000*(caseSerial%1000) + rapid.IntRange(1, 2).Draw(t, "skip") // counts of its own per case: the default logger's subtree outlives a case
			default:
				s.Kind = "probe"
			}
			if s.Kind == "set" || s.Kind == "with" {
				s.Op = rapid.SampledFrom([]string{"json", "color"}).Draw(t, "op")
				s.Bools = genBools().Draw(t, "bools")
			}
			if s.Kind == "set" && rapid.IntRange(0, 59).Draw(t, "burst") == 0 {
				// a probe, a long run of one and the same mode call, one different mode call, a probe
				s.Times = rapid.SampledFrom([]int{255, 256, 65535, 65536, 65537, 131071}).Draw(t, "times")
				hist = append(hist, fmt.Sprintf("L%d.probe", s.Logger))
				wd.probe(t, s.Logger, h)
				hist = append(hist, fmt.Sprintf("%v x%d", s, s.Times))
				wd.exec(t, s, h)
				s2 := step{Kind: "set", Logger: s.Logger, Op: rapid.SampledFrom([]string{"json", "color"}).Draw(t, "op2"), Bools: []bool{rapid.Bool().Draw(t, "b2")}}
				hist = append(hist, s2.String(), fmt.Sprintf("L%d.probe", s.Logger))
				wd.exec(t, s2, h)
				wd.probe(t, s.Logger, h)
				burst = true
				continue
			}
			hist = append(hist, s.String())
			wd.exec(t, s, h)
			if s.Kind == "set" {
				touched[s.Logger] = true
			}
			for j, st := range wd.states {
				if visited[j] == nil {
					visited[j] = map[state]bool{}
				}
				visited[j][st] = true
			}
		}
		for i := range wd.loggers {
			hist = append(hist, fmt.Sprintf("L%d.probe", i))
			wd.probe(t, i, h)
		}
		multi := false
		for _, v := range visited {
			if len(v) >= 2 {
				multi = true
			}
		}
		key := ""
		if multi && (len(touched) >= 2 || len(wd.loggers) >= 2) {
			key = h()
		}
		if burst {
			vlib.Label("long-run-of-one-mode-call")
		}
		vlib.Case("TestGeneratedHistories", key, fmt.Sprintf("loggers=%d", len(wd.loggers)))
		if key != "" && vlib.WantSample("TestGeneratedHistories") {
			vlib.Sample("TestGeneratedHistories", map[string]any{"history": hist, "final_states": fmt.Sprint(wd.states)})
		}
	})
}

// TestEnumeratedHistories runs every history up to a bounded length over the 8 distinct
// calls {SetJSONMode, SetColorMode} x {true,false} x {parent, child} on a 2-logger tree.
func TestEnumeratedHistories(t *testing.T) {
	maxLen := 5
	if vlib.Thorough() {
		maxLen = 7
	}
	defer vlib.Canon()()
	calls := []step{}
	for lg := 0; lg < 2; lg++ {
		for _, op := range []string{"json", "color"} {
			for _, b := range []bool{true, false} {
				calls = append(calls, step{Kind: "set", Op: op, Bools: []bool{b}, Logger: lg})
			}
		}
	}
	total := 0
	idx := make([]int, maxLen)
	for length := 0; length <= maxLen; length++ {
		for i := range idx {
			idx[i] = 0
		}
		for {
			// run one history
			wd := newWorld()
			wd.add(wd.loggers[0].New("kid"), stColor)
			var hist []string
			h := func() string { return strings.Join(hist, "; ") }
			states := map[state]bool{}
			for i := 0; i < length; i++ {
				s := calls[idx[i]]
				hist = append(hist, s.String())
				wd.exec(t, s, h)
				states[wd.states[0]], states[wd.states[1]] = true, true
			}
			wd.probe(t, 0, h)
			wd.probe(t, 1, h)
			total++
			key := ""
			if len(states) >= 2 {
				key = h()
			}
			vlib.Case("TestEnumeratedHistories", key, fmt.Sprintf("len=%d", length))
			if key != "" && length == maxLen && vlib.WantSample("TestEnumeratedHistories") {
				vlib.Sample("TestEnumeratedHistories", map[string]any{"history": hist, "final_states": fmt.Sprint(wd.states)})
			}
			// next index vector
			p := length - 1
			for p >= 0 {
				idx[p]++
				if idx[p] < len(calls) {
					break
				}
				idx[p] = 0
				p--
			}
			if p < 0 {
				break
			}
		}
	}
	vlib.Exhaustive(fmt.Sprintf("all %d histories of length <= %d over the 8 calls Set{JSON,Color}Mode({true,false}) on {parent, child}, getters after every step, probe of both loggers at the end", total, maxLen))
}
