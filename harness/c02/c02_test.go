// C02 — exactly-once, whole-record delivery for any arguments.
package c02

import (
	"context"
	"fmt"
	"os"
	"sort"
	"strings"
	"testing"

	"github.com/hedzr/is"
	"github.com/hedzr/logg/slog"
	"github.com/hedzr/logg/slog/verifharness/vlib"
	"pgregory.net/rapid"
)

func TestMain(m *testing.M) { vlib.Main(m) }

var devNull, _ = os.OpenFile(os.DevNull, os.O_WRONLY, 0)

type config struct {
	Format      string // color | logfmt | json
	ExtraFlags  slog.Flags
	L           slog.Level
	Child       bool
	LoggerAttrs bool
	NNormal     int
	NError      int
	NLevel      int
	// AddOnly: the writers are given with AddWriter/AddErrorWriter only (in the drawn order), so the package's
	// standard devices stay first in both lists; os.Stdout/os.Stderr point at /dev/null while the lists are built
	AddOnly       bool
	ErrAddedFirst bool
	FlagsHow      int // which public way sets the flags (vlib.SetFlagsVia)
	// Removed: a further writer of kind RemovedKind (plain / closer / level-settable / both) is added right after the
	// first writer of the normal (1), error (2) or per-level (3) list and removed again once the list is complete;
	// it must receive nothing and the others exactly one Write. 0: no such writer
	Removed     int
	RemovedKind int
	// ClosedFirst: the writer list the record is bound for was closed through the public API before the call
	// (1 GetWriter().Close(), 2 GetWriterBy(severity).Close()). The statement does not say whether a closed list
	// still delivers; the call must return normally all the same, and nobody may get the record twice or in part
	ClosedFirst int
	// AsList: the normal (1, 3) or error (2) writers are handed over as ONE value of the exported list type slog.LWs:
	// 1, 2 a hand-made list of NewLogWriter handles; 3 what GetWriter() of another logger returns. Every member must
	// still receive the record in exactly one Write
	AsList int
}

var flagChoices = []slog.Flags{slog.Lcaller, slog.LattrsR, slog.Ldate, slog.Ltime, slog.Lmicroseconds, slog.Lprivacypath,
	slog.Lprivacypathregexp, slog.LlocalTime, slog.Llineno, slog.Lcallerpackagename}

func genConfig() *rapid.Generator[config] {
	return rapid.Custom(func(t *rapid.T) config {
		var c config
		c.Format = rapid.SampledFrom([]string{"color", "logfmt", "json"}).Draw(t, "format")
		for _, f := range flagChoices {
			if rapid.Bool().Draw(t, "flag") {
				c.ExtraFlags ^= f // toggles relative to the base flags
			}
		}
		c.L = rapid.SampledFrom(vlib.Builtins).Draw(t, "L")
		c.Child = rapid.Bool().Draw(t, "child")
		c.LoggerAttrs = rapid.Bool().Draw(t, "loggerAttrs")
		c.NNormal = rapid.IntRange(1, 3).Draw(t, "nnormal")
		c.NError = rapid.IntRange(1, 2).Draw(t, "nerror")
		c.NLevel = rapid.SampledFrom([]int{0, 0, 0, 1, 2}).Draw(t, "nlevel")
		c.AddOnly = rapid.IntRange(0, 3).Draw(t, "addOnly") == 0
		c.ErrAddedFirst = rapid.Bool().Draw(t, "errAddedFirst")
		c.FlagsHow = rapid.SampledFrom([]int{0, 0, 1, 2, 3, 4}).Draw(t, "flagsHow")
		c.Removed = rapid.SampledFrom([]int{0, 0, 0, 1, 2, 3}).Draw(t, "addedThenRemoved")
		c.RemovedKind = rapid.IntRange(0, 3).Draw(t, "removedKind")
		c.ClosedFirst = rapid.SampledFrom([]int{0, 0, 0, 0, 0, 1, 2}).Draw(t, "closedFirst")
		c.AsList = rapid.SampledFrom([]int{0, 0, 0, 0, 1, 2, 3}).Draw(t, "writersAsOneList")
		if c.AddOnly || c.Removed != 0 || c.ClosedFirst != 0 {
			c.AsList = 0
		}
		if c.AddOnly {
			c.ClosedFirst = 0 // those lists hold the standard devices: closing them is for good (and makes their writes fail: C13)
		}
		return c
	})
}

type call struct {
	EP          *vlib.EntryPoint
	R           slog.Level
	Msg         string
	Args        vlib.ArgList
	PrintlnMode string // "" | "noargs" | "nonstring"
	FirstArg    any
}

func describeArgs(args []any) string {
	var sb strings.Builder
	for i, a := range args {
		if i > 0 {
			sb.WriteString(", ")
		}
		if i > 12 {
			fmt.Fprintf(&sb, "… (%d args)", len(args))
			break
		}
		s := fmt.Sprintf("%T", a)
		if at, ok := a.(slog.Attr); ok && at != nil {
			s += fmt.Sprintf("{%q}", at.Key())
		} else if str, ok := a.(string); ok {
			s = fmt.Sprintf("%q", str)
		}
		sb.WriteString(s)
	}
	return sb.String()
}

func run(t vlib.TB, test string, c config, k call) {
	defer vlib.Canon()()
	vlib.SetFlagsVia(c.FlagsHow, vlib.BaseFlags^c.ExtraFlags|slog.LnoInterrupt, slog.Lcaller|slog.LattrsR|slog.Ldate|slog.Lmicroseconds|slog.Lprivacypath)
	model := vlib.NewLevelModel()
	log := vlib.NewEventLog()

	var lg slog.Logger = slog.New("c02")
	if c.Child {
		lg = lg.New("kid")
	}
	switch c.Format {
	case "json":
		lg.SetJSONMode(true)
	case "logfmt":
		lg.SetColorMode(false)
	default:
		lg.SetColorMode(true)
	}
	if c.LoggerAttrs {
		lg.Set("svc", "x", slog.Group("meta", "a", 1))
	}
	id := 0
	next := func() vlib.Writer { id++; return vlib.NewRec(log, id, id) }
	var normals, errs, lvls []int
	extra := vlib.NewRec(log, 100, c.RemovedKind) // the writer that is added and removed again (c.Removed)
	addNormals := func() {
		if c.AsList == 1 || c.AsList == 3 {
			var list slog.LWs
			lender := slog.New("lender")
			for i := 0; i < c.NNormal; i++ {
				w := next()
				normals = append(normals, w.ID())
				list = append(list, slog.NewLogWriter(w))
				if i == 0 {
					lender.SetWriter(w)
				} else {
					lender.AddWriter(w)
				}
			}
			if c.AsList == 3 {
				lg.SetWriter(lender.GetWriter())
			} else {
				lg.SetWriter(list)
			}
			return
		}
		for i := 0; i < c.NNormal; i++ {
			w := next()
			if i == 0 && !c.AddOnly {
				lg.SetWriter(w)
			} else {
				lg.AddWriter(w)
			}
			normals = append(normals, w.ID())
			if i == 0 && c.Removed == 1 {
				lg.AddWriter(extra)
			}
		}
		if c.Removed == 1 {
			lg.RemoveWriter(extra)
		}
	}
	addErrors := func() {
		if c.AsList == 2 {
			var list slog.LWs
			for i := 0; i < c.NError; i++ {
				w := next()
				errs = append(errs, w.ID())
				list = append(list, slog.NewLogWriter(w))
			}
			lg.SetErrorWriter(list)
			return
		}
		for i := 0; i < c.NError; i++ {
			w := next()
			if i == 0 && !c.AddOnly {
				lg.SetErrorWriter(w)
			} else {
				lg.AddErrorWriter(w)
			}
			errs = append(errs, w.ID())
			if i == 0 && c.Removed == 2 {
				lg.AddErrorWriter(extra)
			}
		}
		if c.Removed == 2 {
			lg.RemoveErrorWriter(extra)
		}
	}
	if c.AddOnly {
		realOut, realErr := os.Stdout, os.Stderr
		os.Stdout, os.Stderr = devNull, devNull
		lg.ResetWriters() // the standard lists, now holding /dev/null
		if c.ErrAddedFirst {
			addErrors()
			addNormals()
		} else {
			addNormals()
			addErrors()
		}
		os.Stdout, os.Stderr = realOut, realErr
	} else {
		addNormals()
		addErrors()
	}
	for i := 0; i < c.NLevel; i++ {
		w := next()
		lg.AddLevelWriter(k.R, w)
		lvls = append(lvls, w.ID())
		if i == 0 && c.Removed == 3 {
			lg.AddLevelWriter(k.R, extra)
		}
	}
	if c.Removed == 3 && c.NLevel > 0 {
		lg.RemoveLevelWriter(k.R, extra)
	}
	lg.SetLevel(c.L)
	switch c.ClosedFirst {
	case 1:
		_ = lg.GetWriter().Close()
	case 2:
		_ = lg.GetWriterBy(k.R).Close()
	}
	if k.EP.Pkg {
		slog.SetDefault(lg)
	}

	admit := model.Admit(c.L, k.R, is.DebugMode()) // the process-wide mode is an input of the rule: read, not predicted (C01 owns how it gets switched)
	if k.EP.Kind == "verbose" {
		admit = false
	}
	want := normals
	switch {
	case len(lvls) > 0:
		want = lvls
	case model.ErrorClass(k.R):
		want = errs
	}
	if !admit {
		want = nil
	}

	where := fmt.Sprintf("%s severity=%v logger{level=%v format=%s child=%v attrs=%v flags=%#x addOnly=%v addedThenRemoved=%d(kind %d, writer 100) writersClosedFirst=%d writersAsOneList=%d} msg=%s args=[%s] println=%s",
		k.EP.Name, k.R, c.L, c.Format, c.Child, c.LoggerAttrs, int64(slog.GetFlags()), c.AddOnly, c.Removed, c.RemovedKind, c.ClosedFirst, c.AsList, vlib.Short(k.Msg), describeArgs(k.Args.Args), k.PrintlnMode)

	func() {
		defer func() {
			if p := recover(); p != nil {
				sig := "C02/panic:" + k.EP.Name
				if k.PrintlnMode != "" {
					sig += ":" + k.PrintlnMode
				}
				vlib.Discrep(t, sig, "C02 %s: the call panicked: %v", where, p)
			}
		}()
		ctx := context.Background()
		switch k.PrintlnMode {
		case "noargs":
			if k.EP.Pkg {
				slog.Println()
			} else {
				lg.Println()
			}
		case "nonstring":
			all := append([]any{k.FirstArg}, k.Args.Args...)
			if k.EP.Pkg {
				slog.Println(all...)
			} else {
				lg.Println(all...)
			}
		default:
			k.EP.Call(lg, ctx, k.R, k.Msg, k.Args.Args)
		}
	}()

	writes := log.Writes()
	got := map[int]int{}
	for _, e := range writes {
		got[e.W]++
		if len(e.Payload) == 0 || e.Payload[len(e.Payload)-1] != '\n' {
			t.Fatalf("C02 %s: payload delivered to writer %d does not end with a newline: %q", where, e.W, e.Payload)
		}
	}
	wantSet := map[int]bool{}
	for _, w := range want {
		wantSet[w] = true
		if c.ClosedFirst != 0 && got[w] == 0 {
			continue // a closed list may or may not deliver (not stated); never twice
		}
		if got[w] != 1 {
			t.Fatalf("C02 %s: selected writer %d received %d Write calls, want exactly 1 (admitted=%v; events %v)", where, w, got[w], admit, log.Snapshot())
		}
	}
	var stray []int
	for w := range got {
		if !wantSet[w] {
			stray = append(stray, w)
		}
	}
	sort.Ints(stray)
	if len(stray) > 0 {
		t.Fatalf("C02 %s: writers %v outside the selected set %v were written to (admitted=%v; events %v)", where, stray, want, admit, log.Snapshot())
	}
	// all selected writers must have received the same bytes
	for i := 1; i < len(writes); i++ {
		if string(writes[i].Payload) != string(writes[0].Payload) {
			t.Fatalf("C02 %s: destinations received different payloads: %q vs %q", where, writes[0].Payload, writes[i].Payload)
		}
	}
	blank := strings.Trim(k.Msg, " \t\r\n") == "" || k.PrintlnMode == "noargs"
	isPrint := strings.Contains(k.EP.Name, "Print")
	if admit && isPrint && blank && k.PrintlnMode != "nonstring" {
		for _, e := range writes {
			if string(e.Payload) != "\n" {
				t.Fatalf("C02 %s: blank Print/Println must be delivered as exactly one newline byte, got %q", where, e.Payload)
			}
		}
	}

	if admit && k.PrintlnMode == "" && !((isPrint || k.R == slog.AlwaysLevel) && vlib.LooksBlank(k.Msg)) { // (Print is the Always severity)
		// "the whole record": a message that is not blank in any reading (control characters are not white space) never
		// shrinks to the bare newline of a blank Print
		for _, e := range writes {
			if len(e.Payload) <= 1 {
				t.Fatalf("C02 %s: the destination got %q instead of the whole record (the message is not blank)", where, e.Payload)
			}
		}
	}

	// classification
	labels := []string{"format=" + c.Format, "ep=" + k.EP.Kind, fmt.Sprintf("admit=%v", admit), fmt.Sprintf("add-only=%v", c.AddOnly), fmt.Sprintf("added-then-removed=%d", c.Removed), fmt.Sprintf("closed-first=%d", c.ClosedFirst)}
	for l := range k.Args.Labels {
		labels = append(labels, "args:"+l)
	}
	if k.PrintlnMode != "" {
		labels = append(labels, "println:"+k.PrintlnMode)
	}
	if isPrint && blank {
		labels = append(labels, "blank-print")
	}
	key := ""
	nt := vlib.JoinSorted(k.Args.Labels)
	if nt != "" || k.PrintlnMode != "" || (isPrint && blank) {
		key = fmt.Sprintf("%s|%s|%s|%s|%v|%d", c.Format, k.EP.Kind, nt, k.PrintlnMode, admit, len(want))
	}
	vlib.Case(test, key, labels...)
	if key != "" && vlib.WantSample(test+"/"+c.Format) {
		vlib.Sample(test+"/"+c.Format, map[string]any{"entry": k.EP.Name, "severity": int(k.R), "logger_level": int(c.L),
			"msg": vlib.Short(k.Msg), "args": describeArgs(k.Args.Args), "println": k.PrintlnMode, "admitted": admit, "selected_writers": want})
	}
}

func genCall() *rapid.Generator[call] {
	return rapid.Custom(func(t *rapid.T) call {
		var k call
		k.R = rapid.SampledFrom(vlib.Builtins).Draw(t, "r")
		eps := vlib.EntryPointsFor(k.R)
		k.EP = eps[rapid.IntRange(0, len(eps)-1).Draw(t, "ep")]
		k.Msg = vlib.GenMsg().Draw(t, "msg")
		if !k.EP.NoArg {
			k.Args = vlib.GenArgs().Draw(t, "args")
		} else {
			k.Args.Labels = map[string]bool{}
		}
		// now and then a very large message or string value (hundreds of KB to a few MB): still one whole Write
		if rapid.IntRange(0, 149).Draw(t, "huge") == 0 {
			n := rapid.SampledFrom([]int{300 << 10, 520 << 10, 600 << 10, 1100 << 10, 2200 << 10}).Draw(t, "hugeSize")
			big := strings.Repeat("0123456789abcdef", n/16)
			if rapid.Bool().Draw(t, "hugeMsg") || k.EP.NoArg {
				k.Msg = big
			} else {
				k.Args.Args = append(k.Args.Args, "huge", big)
			}
			k.Args.Labels["huge-string"] = true
		}
		if k.EP.Name == "Logger.Println" || k.EP.Name == "slog.Println" {
			switch rapid.IntRange(0, 3).Draw(t, "printlnMode") {
			case 0:
				k.PrintlnMode = "noargs"
			case 1:
				k.PrintlnMode = "nonstring"
				k.FirstArg = rapid.SampledFrom([]any{42, nil, 3.5, true, vlib.Pt{X: 1, Y: "p"}, []string{"a"}, fmt.Errorf("boom"), vlib.Str{S: "str"}, []byte("bytes"),
					(*int)(nil), (*string)(nil), (*vlib.Pt)(nil), (**int)(nil), new(*int), &vlib.Pt{X: 2, Y: "q"}, map[string]int(nil), []int(nil), (func())(nil), (chan int)(nil)}).Draw(t, "first")
			}
		}
		return k
	})
}

// couple makes the rare conjunctions of independently drawn choices common enough: a blank Print/Println (the
// shortcut that writes a bare newline) on a logger that admits nothing, or only a little ("if it is not admitted no
// destination is written to at all" holds for the shortcut too).
func couple(t *rapid.T, c *config, k *call) {
	blank := k.PrintlnMode == "noargs" || (k.R == slog.AlwaysLevel && strings.Trim(k.Msg, " \t\r\n") == "")
	if blank && rapid.IntRange(0, 2).Draw(t, "blankCallOnAQuietLogger") == 0 {
		c.L = rapid.SampledFrom([]slog.Level{slog.OffLevel, slog.OffLevel, slog.PanicLevel, slog.ErrorLevel}).Draw(t, "quietLevel")
	}
}

func TestDelivery(t *testing.T) {
	vlib.ManyCallSites() // a long-running process has seen thousands of call sites
	rapid.Check(t, func(t *rapid.T) {
		c := genConfig().Draw(t, "config")
		k := genCall().Draw(t, "call")
		couple(t, &c, &k)
		run(t, "TestDelivery", c, k)
	})
}

// FuzzDelivery drives the same property from the native fuzzer (thorough tier).
func FuzzDelivery(f *testing.F) {
	f.Fuzz(rapid.MakeFuzz(func(t *rapid.T) {
		c := genConfig().Draw(t, "config")
		k := genCall().Draw(t, "call")
		couple(t, &c, &k)
		run(t, "FuzzDelivery", c, k)
	}))
}
