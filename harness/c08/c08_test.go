// C08 — concurrent logging is race-free and never tears or loses a record.
// Run with -race: any report of the race detector fails the test.
package c08

import (
	"context"
	"errors"
	"fmt"
	logslog "log/slog"
	"runtime"
	"sort"
	"strings"
	"sync"
	"testing"
	"time"

	"github.com/hedzr/logg/slog"
	"github.com/hedzr/logg/slog/verifharness/vlib"
	errorsv3 "gopkg.in/hedzr/errors.v3"
	"pgregory.net/rapid"
)

func TestMain(m *testing.M) { vlib.Main(m) }

type loggerSpec struct {
	Format      string
	Parent      int // -1: root
	OwnAttrs    bool
	SharedGroup bool // the logger-level attributes include the shared group value
	CtxKeys     bool // the logger extracts the request id from the call's context (string key and Stringer key)
	LevelWriter bool // the logger has per-level writers (for Warn and Error; they are the same recorder, so routing does not change)
	BigOwn      bool // with OwnAttrs: 1100 own attributes (more than any scratch list is ever pre-sized for), unsorted
	Adapter     bool // calls go through a log/slog Logger derived with With(...) from a handler on this logger, without attributes of their own
}

type workload struct {
	Loggers    []loggerSpec
	G, N       int
	Procs      int
	Seed       uint64
	CallGroup  bool // calls pass the shared group value
	MultiLine  bool
	ErrorVals  bool
	YieldEvery int
	BigValues  bool // some calls carry a string attribute of several KB (the pooled buffers must grow)
	Blanks     bool // some calls are blank Print/Println (delivered as a bare newline)
	OddLevels  bool // some calls use custom levels registered at run time (one per goroutine, negative values, treated as Info)
	BareCalls  bool // some calls are plain verb methods with a message and no argument at all (the logger's attributes are the record's)
	Override   bool // some calls pass a group of their own under the key of the logger-level shared group (the call's group wins)
}

func (w workload) String() string {
	return fmt.Sprintf("loggers=%+v G=%d N=%d GOMAXPROCS=%d callSharedGroup=%v multiline=%v errors=%v blanks=%v unregisteredLevels=%v bigValues=%v bareCalls=%v overrideGroup=%v yieldEvery=%d seed=%d",
		w.Loggers, w.G, w.N, w.Procs, w.CallGroup, w.MultiLine, w.ErrorVals, w.Blanks, w.OddLevels, w.BigValues, w.BareCalls, w.Override, w.YieldEvery, w.Seed)
}

// the members of the shared group: unsorted and with a duplicate key so that the
// encoder's sort and dedupe have work to do
func sharedGroupExp() vlib.ExpAttr {
	return vlib.ExpAttr{Key: "shared", IsGroup: true, Group: []vlib.ExpAttr{
		{Key: "z", Val: vlib.Value{Kind: "int", V: 1}},
		{Key: "a", Val: vlib.Value{Kind: "string", V: "first"}},
		{Key: "m", Val: vlib.Value{Kind: "int", V: 2}},
		{Key: "a", Val: vlib.Value{Kind: "string", V: "second"}},
		{Key: "b", IsGroup: true, Group: []vlib.ExpAttr{{Key: "y", Val: vlib.Value{Kind: "int", V: 3}}, {Key: "x", Val: vlib.Value{Kind: "int", V: 4}}}},
		// members already in key order, with a repeated key: nothing to sort, something to dedupe
		{Key: "ord", IsGroup: true, Group: []vlib.ExpAttr{{Key: "id", Val: vlib.Value{Kind: "int", V: 1}}, {Key: "id", Val: vlib.Value{Kind: "int", V: 2}}, {Key: "user", Val: vlib.Value{Kind: "string", V: "u"}}}},
	}}
}

func mix(x uint64) uint64 {
	x ^= x >> 33
	x *= 0xff51afd7ed558ccd
	x ^= x >> 33
	x *= 0xc4ceb9fe1a85ec53
	x ^= x >> 33
	return x
}

var stackErr = errorsv3.New("stack carrying error")

const bigOwnN = 1100 // above the package's largest pre-sized scratch list (1024)

// bigValue is a string of about 5 KB that is different for every call.
func bigValue(id string) string { return strings.Repeat(id+" ", 5200/(len(id)+1)) }

type ctxKeyT struct{ n string }

func (k *ctxKeyT) String() string { return k.n }

var reqKey = &ctxKeyT{"requser"}

type expectation struct {
	logger int
	level  string
	msg    string
	attrs  []vlib.ExpAttr
}

func run(t *rapid.T, test string, wl workload) {
	defer vlib.Canon()()
	if wl.OddLevels {
		// the custom levels the goroutines use are registered before anybody logs (registration while logging is a
		// reconfiguration, outside the claim); an Info logger admits them as the Info they are treated as
		for g := 0; g < wl.G; g++ {
			_ = slog.RegisterLevel(slog.Level(-100-g), fmt.Sprintf("odd%d", g), slog.RegWithTreatedAsLevel(slog.InfoLevel))
		}
	}
	old := runtime.GOMAXPROCS(wl.Procs)
	defer runtime.GOMAXPROCS(old)

	log := vlib.NewEventLog()
	if wl.YieldEvery > 0 {
		var cnt uint64
		var mu sync.Mutex
		log.Hook = func(int) {
			mu.Lock()
			cnt++
			y := cnt%uint64(wl.YieldEvery) == 0
			mu.Unlock()
			if y {
				runtime.Gosched()
			}
		}
	}
	// ONE shared group value, used by logger-level attributes and by calls of all goroutines
	sharedExp := sharedGroupExp()
	shared := vlib.AttrsOf([]vlib.ExpAttr{sharedExp})[0]

	// the members of the shared value as the callers see them: logging must never write to them
	memberKeys := func() string {
		var walk func(a slog.Attr, sb *strings.Builder)
		walk = func(a slog.Attr, sb *strings.Builder) {
			if a == nil {
				sb.WriteString("<nil>;")
				return
			}
			sb.WriteString(a.Key())
			if _, isGroup := a.Value().(slog.Attrs); !isGroup {
				fmt.Fprintf(sb, "=%v", a.Value())
			}
			if items, ok := a.Value().(slog.Attrs); ok {
				sb.WriteString("{")
				for _, m := range items {
					walk(m, sb)
				}
				sb.WriteString("}")
			}
			sb.WriteString(";")
		}
		var sb strings.Builder
		walk(shared, &sb)
		return sb.String()
	}
	sharedBefore := memberKeys()

	loggers := make([]slog.Logger, len(wl.Loggers))
	own := make([][]vlib.ExpAttr, len(wl.Loggers))
	names := make([]string, len(wl.Loggers))
	for i, ls := range wl.Loggers {
		names[i] = fmt.Sprintf("lg%d", i)
		if ls.Parent < 0 || ls.Parent >= i {
			loggers[i] = slog.New(names[i])
		} else {
			loggers[i] = loggers[ls.Parent].New(names[i])
		}
		lg := loggers[i]
		switch ls.Format {
		case "json":
			lg.SetJSONMode(true)
		case "logfmt":
			lg.SetColorMode(false)
		default:
			lg.SetColorMode(true)
		}
		w := vlib.NewRec(log, i, 0)
		lg.SetWriter(w)
		lg.SetErrorWriter(w)
		lg.SetLevel(slog.InfoLevel)
		if ls.OwnAttrs {
			own[i] = []vlib.ExpAttr{{Key: "svc", Val: vlib.Value{Kind: "string", V: names[i]}}, {Key: "n", Val: vlib.Value{Kind: "int", V: i}}}
			lg.Set("svc", names[i], "n", i)
			if ls.BigOwn {
				var args []any
				for j := bigOwnN - 1; j >= 0; j-- {
					k := fmt.Sprintf("own%04d", (j*7)%bigOwnN)
					own[i] = append(own[i], vlib.ExpAttr{Key: k, Val: vlib.Value{Kind: "int", V: 1000*i + j}})
					args = append(args, k, 1000*i+j)
				}
				lg.Set(args...)
			}
		}
		if ls.SharedGroup {
			own[i] = append(own[i], sharedExp)
			lg.SetAttrs(shared)
		}
		if ls.CtxKeys {
			lg.SetContextKeys("reqid", reqKey)
		}
		if ls.LevelWriter {
			lg.AddLevelWriter(slog.WarnLevel, w)
			lg.AddLevelWriter(slog.ErrorLevel, w)
		}
	}
	// log/slog front ends (built last: NewSlogHandler edits the package flags, which are set again below)
	adapters := make([]*logslog.Logger, len(wl.Loggers))
	derivedExp := []vlib.ExpAttr{}
	var derivedArgs []any
	for _, k := range []string{"zeta", "mid", "alpha", "kappa", "beta", "omega", "delta", "chi", "eta", "nu", "xi", "pi", "rho", "tau"} { // unsorted on purpose
		derivedExp = append(derivedExp, vlib.ExpAttr{Key: k, Val: vlib.Value{Kind: "string", V: "with-" + k}})
		derivedArgs = append(derivedArgs, k, "with-"+k)
	}
	for i, ls := range wl.Loggers {
		if ls.Adapter {
			h := slog.NewSlogHandler(loggers[i], &slog.HandlerOptions{NoColor: ls.Format != "color", JSON: ls.Format == "json", NoSource: true})
			adapters[i] = logslog.New(h).With(derivedArgs...)
		}
	}
	slog.SetFlags(vlib.BaseFlags)

	// the plan: what call (g,i) does, a pure function of the drawn seed
	type call struct {
		logger int
		sev    slog.Level
		admit  bool
		blank  bool
		bare   bool
		over   bool
	}
	plan := func(g, i int) call {
		h := mix(wl.Seed ^ uint64(g)<<32 ^ uint64(i))
		c := call{logger: int(h % uint64(len(wl.Loggers)))}
		switch (h >> 8) % 5 {
		case 0:
			c.sev, c.admit = slog.ErrorLevel, true
		case 1:
			c.sev, c.admit = slog.WarnLevel, true
		case 2:
			c.sev, c.admit = slog.DebugLevel, false // not admitted by an Info logger: must not be delivered
		default:
			c.sev, c.admit = slog.InfoLevel, true
		}
		if wl.Loggers[c.logger].Adapter {
			return c // through log/slog only the four standard levels are used, with no per-call attributes
		}
		if wl.OddLevels && (h>>16)%4 == 0 {
			c.sev, c.admit = slog.Level(-100-g), true // one custom level per goroutine, registered (treated as Info) before the workload starts
		}
		if wl.Blanks && (h>>24)%6 == 0 {
			c.sev, c.admit, c.blank = slog.AlwaysLevel, true, true
		}
		if wl.BareCalls && !c.blank && (h>>32)%3 == 0 {
			c.bare = true
			if c.sev < 0 { // the bare calls use the verb methods
				c.sev = slog.InfoLevel
			}
		}
		if wl.Override && !c.bare && !c.blank && (h>>40)%3 == 0 {
			c.over = true
		}
		return c
	}
	// the group a call passes under the key of the shared group
	overrideExp := func(id string) vlib.ExpAttr {
		return vlib.ExpAttr{Key: "shared", IsGroup: true, Group: []vlib.ExpAttr{
			{Key: "z", Val: vlib.Value{Kind: "string", V: "z-" + id}},
			{Key: "a", Val: vlib.Value{Kind: "string", V: "a-" + id}},
		}}
	}
	blanksExpected := map[int]int{}
	levelName := func(l slog.Level) string {
		if n, ok := vlib.BuiltinNames[l]; ok {
			return n
		}
		return l.String() // unregistered: whatever the package calls it
	}

	expected := map[string]expectation{}
	for g := 0; g < wl.G; g++ {
		for i := 0; i < wl.N; i++ {
			c := plan(g, i)
			if !c.admit {
				continue
			}
			if c.blank {
				blanksExpected[c.logger]++
				continue
			}
			id := fmt.Sprintf("id-%d-%d", g, i)
			msg := "concurrent " + id
			if wl.MultiLine && i%3 == 0 {
				msg += "\nsecond line of " + id + "\nthird"
			}
			if wl.Loggers[c.logger].Adapter {
				expected[id] = expectation{logger: c.logger, level: levelName(c.sev), msg: msg, attrs: derivedExp}
				continue
			}
			var attrs []vlib.ExpAttr
			if wl.Loggers[c.logger].CtxKeys {
				// context values come first in the merge
				attrs = append(attrs, vlib.ExpAttr{Key: "reqid", Val: vlib.Value{Kind: "string", V: "req-" + id}}, vlib.ExpAttr{Key: "requser", Val: vlib.Value{Kind: "int", V: g*100000 + i}})
			}
			attrs = append(attrs, own[c.logger]...)
			if c.bare {
				expected[id] = expectation{logger: c.logger, level: levelName(c.sev), msg: msg, attrs: own[c.logger]}
				continue
			}
			attrs = append(attrs, vlib.ExpAttr{Key: "id", Val: vlib.Value{Kind: "string", V: id}}, vlib.ExpAttr{Key: "i", Val: vlib.Value{Kind: "int", V: i}})
			if wl.CallGroup && i%2 == 0 {
				attrs = append(attrs, sharedExp)
			}
			if wl.ErrorVals && i%4 == 1 {
				attrs = append(attrs, vlib.ExpAttr{Key: "err", Val: vlib.Value{Kind: "error", V: stackErr}})
			}
			if wl.BigValues && i%5 == 2 {
				attrs = append(attrs, vlib.ExpAttr{Key: "big", Val: vlib.Value{Kind: "string", V: bigValue(id)}})
			}
			if c.over {
				attrs = append(attrs, overrideExp(id))
			}
			expected[id] = expectation{logger: c.logger, level: levelName(c.sev), msg: msg, attrs: attrs}
		}
	}

	var wg sync.WaitGroup
	panics := make(chan string, wl.G)
	start := make(chan struct{})
	for g := 0; g < wl.G; g++ {
		wg.Add(1)
		go func(g int) {
			defer wg.Done()
			defer func() {
				if p := recover(); p != nil {
					panics <- fmt.Sprintf("goroutine %d panicked: %v", g, p)
				}
			}()
			<-start
			for i := 0; i < wl.N; i++ {
				c := plan(g, i)
				if c.blank {
					if i%2 == 0 {
						loggers[c.logger].Println()
					} else {
						loggers[c.logger].Print("  ")
					}
					continue
				}
				id := fmt.Sprintf("id-%d-%d", g, i)
				msg := "concurrent " + id
				if wl.MultiLine && i%3 == 0 {
					msg += "\nsecond line of " + id + "\nthird"
				}
				if sl := adapters[c.logger]; sl != nil {
					switch c.sev {
					case slog.ErrorLevel:
						sl.Error(msg)
					case slog.WarnLevel:
						sl.Warn(msg)
					case slog.DebugLevel:
						sl.Debug(msg)
					default:
						sl.Info(msg)
					}
					continue
				}
				if c.bare {
					printf := (g+i)%2 == 1 // every other bare call through the printf-style verbs
					switch {
					case c.sev == slog.ErrorLevel && printf:
						_ = loggers[c.logger].Errorf("%s", msg)
					case c.sev == slog.ErrorLevel:
						loggers[c.logger].Error(msg)
					case c.sev == slog.WarnLevel && printf:
						_ = loggers[c.logger].Warnf("%s", msg)
					case c.sev == slog.WarnLevel:
						loggers[c.logger].Warn(msg)
					case c.sev == slog.DebugLevel:
						loggers[c.logger].Debug(msg)
					case printf:
						_ = loggers[c.logger].Infof("%s", msg)
					default:
						loggers[c.logger].Info(msg)
					}
					continue
				}
				args := []any{"id", id, "i", i}
				if wl.BigValues && i%5 == 2 {
					args = append(args, "big", bigValue(id))
				}
				if wl.CallGroup && i%2 == 0 {
					args = append(args, shared)
				}
				if wl.ErrorVals && i%4 == 1 {
					args = append(args, "err", error(stackErr))
				}
				if c.over {
					args = append(args, vlib.AttrsOf([]vlib.ExpAttr{overrideExp(id)})[0])
				}
				ctx := context.WithValue(context.WithValue(context.Background(), "reqid", "req-"+id), reqKey, g*100000+i) //nolint:staticcheck // string key on purpose
				loggers[c.logger].LogAttrs(ctx, c.sev, msg, args...)
			}
		}(g)
	}
	close(start)
	wg.Wait()
	close(panics)
	for p := range panics {
		t.Fatalf("C08 %v: %s", wl, p)
	}

	if after := memberKeys(); after != sharedBefore {
		t.Fatalf("C08 %v: logging wrote to the Group value shared by the callers (a data race whenever two goroutines log it): members were %s, now %s", wl, sharedBefore, after)
	}

	// every payload is the complete record of exactly one call
	seen := map[string]int{}
	blanksSeen := map[int]int{}
	for _, e := range log.Writes() {
		p := e.Payload
		if string(p) == "\n" {
			blanksSeen[e.W]++
			continue
		}
		id := ""
		if k := strings.Index(string(p), "id-"); k >= 0 {
			end := k + 3
			for end < len(p) && (p[end] == '-' || (p[end] >= '0' && p[end] <= '9')) {
				end++
			}
			id = string(p[k:end])
		}
		exp, ok := expected[id]
		if !ok {
			t.Fatalf("C08 %v: a destination observed a payload that belongs to no admitted call (id %q): %q", wl, id, p)
		}
		seen[id]++
		if e.W != exp.logger {
			t.Fatalf("C08 %v: record %s of logger %d arrived at the writer of logger %d", wl, id, exp.logger, e.W)
		}
		rec := vlib.ExpRecord{LoggerName: names[exp.logger], LevelName: exp.level, Msg: exp.msg, Attrs: exp.attrs, TimeLayout: "15:04:05.000000Z07:00"}
		var prob *vlib.Problem
		switch wl.Loggers[exp.logger].Format {
		case "json":
			prob = vlib.CheckJSONRecord(p, rec)
		case "logfmt":
			hasErr := false
			for _, a := range exp.attrs {
				if _, ok := a.Val.V.(error); ok {
					hasErr = true
				}
			}
			rec.QuotingNotJudged = true // quoting is C05's clause
			prob = vlib.CheckLogfmtRecord(p, rec, hasErr && !vlib.ProductionMode())
		default:
			r := vlib.SimulateSGR(p)
			first := strings.SplitN(r.Text, "\n", 2)[0]
			firstMsg := strings.SplitN(exp.msg, "\n", 2)[0]
			k := strings.Index(first, firstMsg)
			if k < 0 {
				prob = &vlib.Problem{Msg: "first message line not found"}
				break
			}
			rest := strings.TrimLeft(first[k+len(firstMsg):], " ")
			pairs, err := vlib.ParseLogfmtRecord([]byte(rest + "\n"))
			if err != nil {
				prob = &vlib.Problem{Msg: err.Error()}
			} else if err := vlib.MatchLogfmtAttrs(pairs, vlib.Normalize(exp.attrs), false); err != nil {
				prob = &vlib.Problem{Msg: err.Error()}
			}
			if strings.Contains(exp.msg, "\n") && !strings.Contains(r.Text, "\n    second line of "+id+"\n    third") {
				prob = &vlib.Problem{Msg: "the remaining message lines are missing or torn"}
			}
			if r.DirtyAtEnd {
				prob = &vlib.Problem{Msg: "colour still on at the end of the record"}
			}
			hasErr := false
			for _, a := range exp.attrs {
				if _, ok := a.Val.V.(error); ok {
					hasErr = true
				}
			}
			wantLines := 1 + strings.Count(exp.msg, "\n")
			if gotLines := strings.Count(strings.TrimRight(r.Text, "\n"), "\n") + 1; !hasErr && gotLines != wantLines {
				prob = &vlib.Problem{Msg: fmt.Sprintf("record has %d lines, the call's message has %d", gotLines, wantLines)}
			}
		}
		if prob != nil {
			t.Fatalf("C08 %v: the payload for call %s is not the complete, uncorrupted record of that call: %s\npayload: %q", wl, id, prob.Msg, p)
		}
	}
	for lgi := range wl.Loggers {
		if blanksSeen[lgi] != blanksExpected[lgi] {
			t.Fatalf("C08 %v: logger %d delivered %d blank lines, %d blank Print/Println calls were made", wl, lgi, blanksSeen[lgi], blanksExpected[lgi])
		}
	}
	var missing, dup []string
	for id := range expected {
		switch n := seen[id]; {
		case n == 0:
			missing = append(missing, id)
		case n > 1:
			dup = append(dup, id)
		}
	}
	sort.Strings(missing)
	sort.Strings(dup)
	if len(missing)+len(dup) > 0 {
		t.Fatalf("C08 %v: delivered records differ from admitted calls: %d lost (e.g. %v), %d duplicated (e.g. %v)", wl, len(missing), head(missing), len(dup), head(dup))
	}

	// classification
	sharing := map[string]bool{}
	formats := map[string]bool{}
	for _, ls := range wl.Loggers {
		formats[ls.Format] = true
		if ls.SharedGroup {
			sharing["logger-level-shared-group"] = true
		}
		if ls.OwnAttrs {
			sharing["logger-attrs"] = true
		}
		if ls.Parent >= 0 {
			sharing["parent-child"] = true
		}
		if ls.CtxKeys {
			sharing["context-keys"] = true
		}
		if ls.LevelWriter {
			sharing["per-level-writers"] = true
		}
		if ls.BigOwn && ls.OwnAttrs {
			sharing["1100-logger-attributes"] = true
		}
		if ls.Adapter {
			sharing["derived-log/slog-logger"] = true
		}
	}
	if wl.CallGroup {
		sharing["call-shared-group"] = true
	}
	if wl.BareCalls {
		sharing["calls-without-arguments"] = true
	}
	if wl.Override {
		sharing["call-group-overrides-logger-group"] = true
	}
	key := ""
	if wl.G >= 2 && (len(sharing) > 0) && wl.G > len(wl.Loggers)/2 {
		bucket := "G<=8"
		if wl.G > 8 {
			bucket = "G>8"
		}
		key = fmt.Sprintf("%s|%s|%s|%d|%d|%v", vlib.JoinSorted(formats), vlib.JoinSorted(sharing), bucket, len(wl.Loggers), wl.Procs, wl.MultiLine)
	}
	labels := []string{fmt.Sprintf("procs=%d", wl.Procs)}
	for s := range sharing {
		labels = append(labels, s)
	}
	vlib.Case(test, key, labels...)
	vlib.ExtraAdd("records_checked", int64(len(seen)))
	if key != "" && vlib.WantSample(test) {
		vlib.Sample(test, map[string]any{"workload": wl.String(), "records": len(seen)})
	}
}

func head(s []string) []string {
	if len(s) > 3 {
		return s[:3]
	}
	return s
}

func genWorkload(t *rapid.T, maxCalls int) workload {
	var wl workload
	nl := rapid.IntRange(1, 8).Draw(t, "loggers")
	for i := 0; i < nl; i++ {
		ls := loggerSpec{Format: rapid.SampledFrom([]string{"json", "logfmt", "color"}).Draw(t, "format"), Parent: -1,
			OwnAttrs: rapid.Bool().Draw(t, "ownAttrs"), SharedGroup: rapid.IntRange(0, 2).Draw(t, "loggerSharedGroup") == 0,
			CtxKeys: rapid.IntRange(0, 2).Draw(t, "ctxKeys") == 0, LevelWriter: rapid.IntRange(0, 2).Draw(t, "levelWriter") == 0,
			Adapter: rapid.IntRange(0, 4).Draw(t, "viaLogSlog") == 0, BigOwn: rapid.IntRange(0, 15).Draw(t, "bigOwnAttrs") == 0}
		if ls.Adapter {
			ls.OwnAttrs, ls.SharedGroup, ls.CtxKeys = false, false, false // the handler path prints the record's and the derived attributes only
		}
		if i > 0 && rapid.Bool().Draw(t, "child") {
			ls.Parent = rapid.IntRange(0, i-1).Draw(t, "parent")
		}
		wl.Loggers = append(wl.Loggers, ls)
	}
	for _, ls := range wl.Loggers {
		if ls.BigOwn && ls.OwnAttrs && maxCalls > 200 {
			maxCalls = 200 // every record of such a logger has 1100 attributes to print and to check
		}
	}
	wl.G = rapid.SampledFrom([]int{2, 3, 4, 8, 16, 32, 64}).Draw(t, "G")
	wl.N = rapid.IntRange(1, 200).Draw(t, "N")
	if wl.G*wl.N > maxCalls {
		wl.N = maxCalls / wl.G
		if wl.N < 1 {
			wl.N = 1
		}
	}
	wl.Procs = rapid.SampledFrom([]int{2, 4, 16}).Draw(t, "GOMAXPROCS")
	wl.Seed = rapid.Uint64().Draw(t, "planSeed")
	wl.CallGroup = rapid.Bool().Draw(t, "callSharedGroup")
	wl.MultiLine = rapid.Bool().Draw(t, "multiLine")
	wl.ErrorVals = rapid.Bool().Draw(t, "errorValues")
	wl.YieldEvery = rapid.SampledFrom([]int{0, 1, 3, 7}).Draw(t, "yieldEvery")
	wl.Blanks = rapid.IntRange(0, 2).Draw(t, "blankPrints") == 0
	wl.BigValues = rapid.IntRange(0, 2).Draw(t, "bigValues") == 0
	wl.OddLevels = rapid.IntRange(0, 2).Draw(t, "unregisteredLevels") == 0
	wl.BareCalls = rapid.IntRange(0, 2).Draw(t, "bareCalls") == 0
	wl.Override = rapid.IntRange(0, 2).Draw(t, "overrideGroup") == 0
	return wl
}

func TestConcurrentWorkloads(t *testing.T) {
	rapid.Check(t, func(t *rapid.T) { run(t, "TestConcurrentWorkloads", genWorkload(t, 1500)) })
}

// TestStress: fewer, larger workloads at G=64 (run without the race detector as well).
func TestStress(t *testing.T) {
	rapid.Check(t, func(t *rapid.T) {
		wl := genWorkload(t, 64*150)
		wl.G = 64
		wl.N = rapid.IntRange(50, 150).Draw(t, "N64")
		for _, ls := range wl.Loggers {
			if ls.BigOwn && ls.OwnAttrs {
				wl.N = 3 // 1100 attributes per record
			}
		}
		run(t, "TestStress", wl)
	})
}

var _ = errors.New

// TestSharedValues: values the goroutines share may stand in any position the API allows, not only as an
// attribute of the argument list: a Group as the VALUE of a key/value pair ("k", grp / NewAttr("k", grp) / Any),
// an Attrs list as a value, a slice of groups. The oracle is differential: every call has an explicit time
// (WriteThru), so its payload is a function of the call; the reference payloads are produced by one goroutine
// first, then G goroutines make the same calls at the same time and every payload must be one of the reference
// payloads of that logger, each as often as it was made - and nobody may have written to the shared values.
func TestSharedValues(t *testing.T) {
	rapid.Check(t, func(t *rapid.T) {
		defer vlib.Canon()()
		sharedExp := sharedGroupExp()
		shared := vlib.AttrsOf([]vlib.ExpAttr{sharedExp})[0]
		// a second shared value with many unsorted members (the longer a sort runs, the wider the window)
		var many []slog.Attr
		nMany := rapid.SampledFrom([]int{2, 3, 8, 64}).Draw(t, "membersOfTheBigGroup")
		for i := 0; i < nMany; i++ {
			many = append(many, slog.NewAttr(fmt.Sprintf("m%03d", (i*37+11)%nMany), i))
		}
		big := slog.NewGroupedAttr("big", many...)
		snapshot := func() string {
			var walk func(a slog.Attr, sb *strings.Builder)
			walk = func(a slog.Attr, sb *strings.Builder) {
				sb.WriteString(a.Key())
				if items, ok := a.Value().(slog.Attrs); ok {
					sb.WriteString("{")
					for _, m := range items {
						walk(m, sb)
					}
					sb.WriteString("}")
				} else {
					fmt.Fprintf(sb, "=%v", a.Value())
				}
				sb.WriteString(";")
			}
			var sb strings.Builder
			walk(shared, &sb)
			walk(big, &sb)
			return sb.String()
		}
		before := snapshot()
		position := rapid.SampledFrom([]string{"pair-value", "attr-value", "attrs-value", "slice-of-groups", "plain"}).Draw(t, "positionOfTheSharedValue")
		G := rapid.SampledFrom([]int{2, 4, 8, 16}).Draw(t, "goroutines")
		N := rapid.SampledFrom([]int{5, 20, 60}).Draw(t, "callsPerGoroutine")
		formats := []string{"json", "logfmt", "color"}
		log := vlib.NewEventLog()
		loggers := make([]slog.Logger, len(formats))
		for i, f := range formats {
			lg := slog.New("sv-" + f)
			switch f {
			case "json":
				lg.SetJSONMode(true)
			case "logfmt":
				lg.SetColorMode(false)
			default:
				lg.SetColorMode(true)
			}
			w := vlib.NewRec(log, i, 0)
			lg.SetWriter(w).SetErrorWriter(w).SetLevel(slog.AlwaysLevel)
			loggers[i] = lg
		}
		ts := time.Unix(1700000000, 123456000).UTC()
		call := func(lgi, i int) {
			as := slog.Attrs{slog.NewAttr("i", i)}
			switch position {
			case "pair-value", "attr-value":
				as = append(as, slog.NewAttr("asvalue", shared), slog.NewAttr("bigvalue", big))
			case "attrs-value":
				as = append(as, slog.NewAttr("asvalue", slog.Attrs{shared, big}))
			case "slice-of-groups":
				as = append(as, slog.NewAttr("asvalue", []slog.Attr{shared, big}))
			default:
				as = append(as, shared, big)
			}
			loggers[lgi].(slog.LogSlogAware).WriteThru(context.Background(), slog.InfoLevel, ts, 0, fmt.Sprintf("shared value call %d", i), as)
		}
		// reference: one goroutine
		want := map[int]map[string]int{}
		for lgi := range loggers {
			want[lgi] = map[string]int{}
			for i := 0; i < N; i++ {
				n0 := log.Len()
				call(lgi, i)
				evs := log.Snapshot()[n0:]
				if len(evs) != 1 {
					t.Fatalf("C08 harness expectation: one payload per call, got %d", len(evs))
				}
				want[lgi][string(evs[0].Payload)] += G
			}
		}
		if after := snapshot(); after != before {
			t.Fatalf("C08 shared values (position=%s): logging wrote to a value shared by the callers (a data race whenever two goroutines log it): members were %s, now %s", position, before, after)
		}
		n0 := log.Len()
		var wg sync.WaitGroup
		start := make(chan struct{})
		for g := 0; g < G; g++ {
			wg.Add(1)
			go func(g int) {
				defer wg.Done()
				<-start
				for i := 0; i < N; i++ {
					for lgi := range loggers {
						call((lgi+g)%len(loggers), i)
					}
				}
			}(g)
		}
		close(start)
		wg.Wait()
		for _, e := range log.Snapshot()[n0:] {
			if want[e.W][string(e.Payload)] == 0 {
				t.Fatalf("C08 shared values (position=%s, G=%d, N=%d, format=%s): a destination observed a payload that is not the record of any call made (or more often than it was made) - made by one goroutine, the same calls print differently:\n  %q", position, G, N, formats[e.W], e.Payload)
			}
			want[e.W][string(e.Payload)]--
		}
		for lgi, m := range want {
			for p, n := range m {
				if n != 0 {
					t.Fatalf("C08 shared values (position=%s, G=%d, N=%d, format=%s): %d records lost: %q", position, G, N, formats[lgi], n, p)
				}
			}
		}
		if after := snapshot(); after != before {
			t.Fatalf("C08 shared values (position=%s): logging wrote to a value shared by the callers: members were %s, now %s", position, before, after)
		}
		vlib.Case("TestSharedValues", fmt.Sprintf("%s/%d/%d/%d", position, G, N, nMany), "shared-value/"+position)
	})
}
