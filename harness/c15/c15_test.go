// C15 — log/slog handler and std log bridge preserve content, severity and gating.
package c15

import (
	"context"
	"errors"
	"fmt"
	"io"
	logslog "log/slog"
	"strings"
	"testing"
	"time"

	"github.com/hedzr/is"
	"github.com/hedzr/logg/slog"
	"github.com/hedzr/logg/slog/verifharness/vlib"
	"pgregory.net/rapid"
)

func TestMain(m *testing.M) { vlib.Main(m) }

var model = vlib.NewLevelModel()

var namesake = map[logslog.Level]slog.Level{logslog.LevelDebug: slog.DebugLevel, logslog.LevelInfo: slog.InfoLevel,
	logslog.LevelWarn: slog.WarnLevel, logslog.LevelError: slog.ErrorLevel}

// ---------- generation of log/slog attributes with their expected meaning ----------

type valuer struct{ v logslog.Value }

func (l valuer) LogValue() logslog.Value { return l.v }

func genKey() *rapid.Generator[string] {
	return rapid.OneOf(rapid.StringMatching(`[a-z][a-z0-9_]{0,6}`), rapid.SampledFrom([]string{"error", "ключ", "a-b", "k1", "user_id"})).
		Filter(func(k string) bool {
			return k != "time" && k != "level" && k != "msg" && k != "caller" && k != "logger"
		})
}

// genSlogAttr draws one log/slog attribute and the harness's expectation for it.
func genSlogAttr(t *rapid.T, key string, depth int, labels map[string]bool) (logslog.Attr, vlib.ExpAttr) {
	strs := rapid.OneOf(vlib.GenPlainString(), vlib.GenAnyString())
	kind := rapid.IntRange(0, 12).Draw(t, "slogKind")
	if depth >= 3 && (kind == 7 || kind == 8) {
		kind = 0
	}
	switch kind {
	case 0:
		s := strs.Draw(t, "s")
		return logslog.String(key, s), vlib.ExpAttr{Key: key, Val: vlib.Value{Kind: "string", V: s}}
	case 1:
		b := rapid.Bool().Draw(t, "b")
		return logslog.Bool(key, b), vlib.ExpAttr{Key: key, Val: vlib.Value{Kind: "bool", V: b}}
	case 2:
		i := rapid.Int64().Draw(t, "i")
		return logslog.Int64(key, i), vlib.ExpAttr{Key: key, Val: vlib.Value{Kind: "int64", V: i}}
	case 3:
		u := rapid.Uint64().Draw(t, "u")
		return logslog.Uint64(key, u), vlib.ExpAttr{Key: key, Val: vlib.Value{Kind: "uint64", V: u}}
	case 4:
		f := vlib.GenScalar(strs).Filter(func(v vlib.Value) bool { return v.Kind == "float64" }).Draw(t, "f").V.(float64)
		return logslog.Float64(key, f), vlib.ExpAttr{Key: key, Val: vlib.Value{Kind: "float64", V: f}}
	case 5:
		tm := vlib.GenTime().Draw(t, "tm")
		return logslog.Time(key, tm), vlib.ExpAttr{Key: key, Val: vlib.Value{Kind: "time", V: tm}}
	case 6:
		d := vlib.GenDuration().Draw(t, "d")
		return logslog.Duration(key, d), vlib.ExpAttr{Key: key, Val: vlib.Value{Kind: "duration", V: d}}
	case 7: // group
		labels["group"] = true
		n := rapid.IntRange(0, 3).Draw(t, "gsize")
		var as []any
		var exp []vlib.ExpAttr
		seen := map[string]bool{}
		for i := 0; i < n; i++ {
			k := genKey().Draw(t, "gkey")
			if seen[k] {
				continue
			}
			seen[k] = true
			a, e := genSlogAttr(t, k, depth+1, labels)
			as = append(as, a)
			exp = append(exp, e)
		}
		return logslog.Group(key, as...), vlib.ExpAttr{Key: key, IsGroup: true, Group: exp}
	case 8: // LogValuer resolving to something else (possibly a group)
		labels["logvaluer"] = true
		a, e := genSlogAttr(t, key, depth+1, labels)
		return logslog.Any(key, valuer{a.Value}), e
	case 9: // Any with an error
		err := vlib.GenError(strs).Draw(t, "err")
		labels["any"] = true
		return logslog.Any(key, err), vlib.ExpAttr{Key: key, Val: vlib.Value{Kind: "error", V: err}}
	case 10: // Any with other Go values
		labels["any"] = true
		v := rapid.OneOf(vlib.GenSlice(strs), vlib.GenFallback(strs), rapid.Just(vlib.Value{Kind: "nil", V: nil}),
			rapid.Map(strs, func(s string) vlib.Value { return vlib.Value{Kind: "bytes", V: []byte(s)} }),
			rapid.Map(strs, func(s string) vlib.Value { return vlib.Value{Kind: "stringer", V: vlib.Str{S: s}} })).Draw(t, "anyval")
		if u, ok := v.V.(uintptr); ok { // log/slog widens uintptr to its Uint64 kind
			return logslog.Any(key, u), vlib.ExpAttr{Key: key, Val: vlib.Value{Kind: "uint64", V: uint64(u)}}
		}
		return logslog.Any(key, v.V), vlib.ExpAttr{Key: key, Val: v}
	case 11: // Any with small numeric types (log/slog widens them)
		i := rapid.Int32().Draw(t, "i32")
		return logslog.Any(key, i), vlib.ExpAttr{Key: key, Val: vlib.Value{Kind: "int64", V: int64(i)}}
	default:
		i := rapid.Int().Draw(t, "int")
		return logslog.Int(key, i), vlib.ExpAttr{Key: key, Val: vlib.Value{Kind: "int64", V: int64(i)}}
	}
}

func genSlogAttrs(t *rapid.T, max int, labels map[string]bool, taken map[string]bool) ([]logslog.Attr, []vlib.ExpAttr) {
	n := rapid.IntRange(0, max).Draw(t, "nattrs")
	var as []logslog.Attr
	var exp []vlib.ExpAttr
	for i := 0; i < n; i++ {
		k := genKey().Draw(t, "key")
		if taken[k] {
			continue
		}
		taken[k] = true
		a, e := genSlogAttr(t, k, 0, labels)
		as = append(as, a)
		exp = append(exp, e)
	}
	return as, exp
}

// ---------- (a) handler ----------

// decoy derives (and drops) further handlers from a handler that already has a derived child:
// siblings must not influence each other.
func decoy(t *rapid.T, parent logslog.Handler, labels map[string]bool) {
	n := rapid.IntRange(0, 2).Draw(t, "decoySiblings")
	for i := 0; i < n; i++ {
		labels["sibling-handlers"] = true
		if rapid.Bool().Draw(t, "decoyGroup") {
			_ = parent.WithGroup("decoygroup")
		} else {
			_ = parent.WithAttrs([]logslog.Attr{logslog.String("decoy", "must never be printed"), logslog.Int("decoy2", i)})
		}
	}
}

func hasTopLevelError(as []vlib.ExpAttr) bool {
	for _, a := range as {
		if !a.IsGroup {
			if _, ok := a.Val.V.(error); ok {
				return true
			}
		}
	}
	return false
}

type deriv struct {
	Group string
	Attrs []logslog.Attr
	Exp   []vlib.ExpAttr
}

// expectedTree nests the record's attributes into the open groups and adds the WithAttrs content at its depth.
func expectedTree(chain []deriv, rec []vlib.ExpAttr) []vlib.ExpAttr {
	cur := rec
	for i := len(chain) - 1; i >= 0; i-- {
		d := chain[i]
		if d.Group != "" {
			cur = []vlib.ExpAttr{{Key: d.Group, IsGroup: true, Group: cur}}
		} else {
			cur = append(append([]vlib.ExpAttr{}, d.Exp...), cur...)
		}
	}
	return cur
}

func TestHandler(t *testing.T) {
	rapid.Check(t, func(t *rapid.T) {
		defer vlib.Canon()()
		labels := map[string]bool{}
		format := rapid.SampledFrom([]string{"json", "json", "logfmt", "logfmt", "color"}).Draw(t, "format")
		L := rapid.SampledFrom(vlib.Builtins).Draw(t, "loggerLevel")
		viaOptLevel := rapid.Bool().Draw(t, "levelViaOptions") && L != slog.PanicLevel
		log := vlib.NewEventLog()
		w := vlib.NewRec(log, 1, 0)
		lg := slog.New("adapted").SetWriter(w).SetErrorWriter(w)
		opts := &slog.HandlerOptions{NoColor: format != "color", JSON: format == "json", NoSource: true}
		if viaOptLevel {
			opts.Level = L
		} else {
			lg.SetLevel(L)
		}
		var base slog.Logger = lg
		if rapid.IntRange(0, 3).Draw(t, "loggerIsAUserDecorator") == 0 {
			// NewSlogHandler takes the Logger interface: the adapter may be built on a user type that embeds a logger
			base = decorated{lg}
			labels["handler-on-user-defined-logger"] = true
		}
		var h logslog.Handler = slog.NewSlogHandler(base, opts)
		slog.SetFlags(vlib.BaseFlags)
		// derivation chain
		var chain []deriv
		taken := map[string]bool{}
		nd := rapid.SampledFrom([]int{0, 0, 1, 2, 3, 4}).Draw(t, "derivations")
		for i := 0; i < nd; i++ {
			if rapid.Bool().Draw(t, "withGroup") {
				g := genKey().Draw(t, "groupName")
				if taken[g] {
					continue
				}
				taken[g] = true
				parent := h
				h = h.WithGroup(g)
				decoy(t, parent, labels)
				chain = append(chain, deriv{Group: g})
				taken = map[string]bool{} // keys below the new group live in their own namespace
			} else {
				as, exp := genSlogAttrs(t, 7, labels, taken)
				if len(as) == 0 {
					continue
				}
				parent := h
				h = h.WithAttrs(as)
				decoy(t, parent, labels)
				chain = append(chain, deriv{Attrs: as, Exp: exp})
			}
		}
		if len(chain) > 0 {
			labels["derived-handler"] = true
		}

		ownCollide := rapid.IntRange(0, 3).Draw(t, "loggerHasOwnAttributesUnderRecordKeys") == 0
		nrec := rapid.SampledFrom([]int{1, 1, 2, 3}).Draw(t, "records")
		for rec := 0; rec < nrec; rec++ {
			log.Reset()
			recTaken := map[string]bool{}
			if rapid.IntRange(0, 2).Draw(t, "recordKeysMayCollideWithHandlerKeys") != 0 {
				for k, v := range taken {
					recTaken[k] = v
				}
			} else {
				// a record attribute may carry the key of an attribute given to WithAttrs at the same depth: the record
				// is still emitted with all ITS attributes (its value is the one printed under that key)
				labels["record-key-may-shadow-handler-key"] = true
			}
			if rec > 0 {
				labels["several-records-one-handler"] = true
				if rapid.IntRange(0, 2).Draw(t, "debugModeChangesBetweenRecords") == 0 {
					// the handler has answered Enabled and handled records: the process-wide debug mode changes now
					switch {
					case is.DebugMode():
						is.SetDebugMode(false)
					case rapid.Bool().Draw(t, "throughAnotherLoggersSetLevel"):
						slog.New("elsewhere").SetLevel(slog.DebugLevel) // documented side effect: debug mode on
					default:
						is.SetDebugMode(true)
					}
					labels["debug-mode-changed-between-records"] = true
				}
			}
			level := logslog.Level(rapid.OneOf(rapid.IntRange(-20, 20), rapid.SampledFrom([]int{-4, 0, 4, 8})).Draw(t, "slogLevel"))
			msg := rapid.OneOf(rapid.StringMatching(`[a-z]{1,8}( [a-z]{1,8}){0,3}`), vlib.GenAnyString()).Draw(t, "msg")
			if vlib.LooksBlank(msg) {
				msg += "x" // non-standard levels are emitted at the Always severity, where a blank message is a bare newline (C02)
			}
			recAttrs, recExp := genSlogAttrs(t, 5, labels, recTaken)
			{
				// log/slog itself drops an attribute that is an empty group when it is added to a record (unless it
				// only becomes one through a LogValuer): whether such an attribute may shadow a handler attribute of the
				// same key is decided before the handler sees it. Keep that corner out: no empty group under a handler key.
				var ka []logslog.Attr
				var ke []vlib.ExpAttr
				for i, a := range recExp {
					if a.IsGroup && len(vlib.Flatten(a.Group, "")) == 0 && taken[a.Key] { // effectively empty: log/slog removes empty groups recursively
						continue
					}
					ka, ke = append(ka, recAttrs[i]), append(ke, a)
				}
				recAttrs, recExp = ka, ke
			}
			if format == "json" && rapid.IntRange(0, 4).Draw(t, "emptyKeyAttr") == 0 {
				// an attribute with an empty key and a non-zero value is an attribute like any other (log/slog only
				// asks handlers to ignore the Attr whose key AND value are zero); JSON only: "" is no logfmt key
				labels["empty-key-attribute"] = true
				strs := vlib.GenPlainString()
				var a logslog.Attr
				var e vlib.ExpAttr
				switch rapid.IntRange(0, 3).Draw(t, "emptyKeyKind") {
				case 0:
					v := "s" + strs.Draw(t, "s")
					a, e = logslog.String("", v), vlib.ExpAttr{Key: "", Val: vlib.Value{Kind: "string", V: v}}
				case 1:
					err := vlib.GenError(strs).Draw(t, "err")
					a, e = logslog.Any("", err), vlib.ExpAttr{Key: "", Val: vlib.Value{Kind: "error", V: err}}
				case 2:
					v := []string{strs.Draw(t, "e0"), strs.Draw(t, "e1")}
					a, e = logslog.Any("", v), vlib.ExpAttr{Key: "", Val: vlib.Value{Kind: "[]string", V: v}}
				default:
					v := rapid.Int64Range(1, 1<<40).Draw(t, "i")
					a, e = logslog.Int64("", v), vlib.ExpAttr{Key: "", Val: vlib.Value{Kind: "int64", V: v}}
				}
				if rapid.Bool().Draw(t, "emptyKeyInsideGroup") {
					g := "ekg"
					if !recTaken[g] && !taken[g] {
						a, e = logslog.Group(g, a), vlib.ExpAttr{Key: g, IsGroup: true, Group: []vlib.ExpAttr{e}}
					}
				}
				recAttrs, recExp = append(recAttrs, a), append(recExp, e)
			}
			if ownCollide {
				// the underlying logger has attributes of its own under keys the record carries too: whatever the
				// adapter does with a logger's own attributes, the record's attributes are emitted with THEIR values
				tree := expectedTree(chain, recExp)
				for i, a := range tree {
					if i < 2 && a.Key != "" {
						lg.Set(a.Key, "the-logger's-own-value")
						labels["logger-own-attribute-under-a-record-key"] = true
					}
				}
			}
			ts := vlib.GenTime().Draw(t, "ts")
			direct := rapid.Bool().Draw(t, "directHandle")
			ctx := context.Background()

			// Enabled must answer like the underlying logger's gating for the four standard levels
			ns, std := namesake[level]
			wantEnabled := true
			if std {
				wantEnabled = model.Admit(L, ns, is.DebugMode())
				if got := h.Enabled(ctx, level); got != wantEnabled {
					vlib.Discrep(t, "C15/enabled", "C15 handler(level=%v, chain=%d).Enabled(%v) = %v, the logger's gating says %v", L, len(chain), level, got, wantEnabled)
				}
			} else {
				labels["non-standard-level"] = true
			}

			desc := fmt.Sprintf("record #%d of %d: format=%s loggerLevel=%v(viaOptions=%v) chain=%s slogLevel=%d direct=%v msg=%s attrs=[%s]",
				rec+1, nrec, format, L, viaOptLevel, describeChain(chain), int(level), direct, vlib.Short(msg), vlib.Describe(recExp))
			func() {
				defer func() {
					if p := recover(); p != nil {
						t.Fatalf("C15 %s: panicked: %v", desc, p)
					}
				}()
				if direct {
					r := logslog.NewRecord(ts, level, msg, 0)
					r.AddAttrs(recAttrs...)
					if err := h.Handle(ctx, r); err != nil {
						t.Fatalf("C15 %s: Handle returned %v", desc, err)
					}
				} else {
					args := make([]any, len(recAttrs))
					for i, a := range recAttrs {
						args[i] = a
					}
					logslog.New(h).Log(ctx, level, msg, args...)
				}
			}()
			writes := log.Writes()
			wantEmit := direct || h.Enabled(ctx, level)
			if std && !direct {
				wantEmit = wantEnabled
			}
			if direct && std && !wantEnabled && len(writes) == 0 {
				// a record handed to Handle without asking Enabled first did not come "through a log/slog.Logger": whether
				// the handler drops what the level refuses or writes it is not stated
				labels["direct-handle-of-a-refused-level-dropped"] = true
				goto classify
			}
			if !std && L == slog.OffLevel && len(writes) == 0 {
				// a level without a namesake passes the handler's Enabled; an Off logger admits nothing (C01's first
				// clause) - that it writes such a record on the current tree is not something this statement asks for
				labels["no-namesake-level-dropped-by-an-off-logger"] = true
				goto classify
			}
			switch {
			case wantEmit && len(writes) != 1:
				sig := "C15/emit"
				if len(chain) > 0 {
					sig = "C15/derived-handler"
				}
				vlib.Discrep(t, sig, "C15 %s: expected exactly one record on the underlying logger's writers, got %d", desc, len(writes))
				goto classify
			case !wantEmit && len(writes) != 0:
				vlib.Discrep(t, "C15/emit", "C15 %s: gated record was emitted: %q", desc, writes[0].Payload)
				goto classify
			case !wantEmit:
				goto classify
			}
			{
				p := writes[0].Payload
				exp := vlib.ExpRecord{LoggerName: "adapted", Msg: msg, Attrs: expectedTree(chain, recExp), TimeLayout: "15:04:05.000000Z07:00"}
				if direct {
					tt := ts
					exp.Time = &tt
				}
				gotLevel := ""
				var prob *vlib.Problem
				switch format {
				case "json":
					if o, err := vlib.DecodeJSONRecord(p); err == nil {
						gotLevel, _ = o.Vals["level"].(string)
					}
					exp.LevelName = gotLevel
					prob = vlib.CheckJSONRecord(p, exp)
				case "logfmt":
					if pairs, err := vlib.ParseLogfmtRecord(firstLine(p)); err == nil {
						for _, pr := range pairs {
							if pr.Key == "level" {
								gotLevel = pr.Str
							}
						}
					}
					exp.LevelName = gotLevel
					exp.QuotingNotJudged = true // quoting is C05's clause
					prob = vlib.CheckLogfmtRecord(p, exp, !vlib.ProductionMode() && hasTopLevelError(vlib.Normalize(exp.Attrs)))
				default:
					txt := vlib.SimulateSGR(p).Text
					if !strings.Contains(txt, "adapted") {
						prob = &vlib.Problem{Sig: "C15/content", Msg: "colored record does not name the underlying logger: " + vlib.Short(txt)}
					}
				}
				if prob != nil {
					sig := "C15/content"
					if len(chain) > 0 {
						sig = "C15/derived-handler"
					}
					vlib.Discrep(t, sig, "C15 %s: %s", desc, prob.Msg)
				}
				if format != "color" {
					if std {
						if want := vlib.BuiltinNames[ns]; gotLevel != want {
							vlib.Discrep(t, "C15/level", "C15 %s: emitted at level %q, want the namesake %q", desc, gotLevel, want)
						}
					} else if gotLevel == "panic" || gotLevel == "fatal" {
						vlib.Discrep(t, "C15/level", "C15 %s: log/slog level %d was mapped to the terminating severity %q", desc, int(level), gotLevel)
					}
				}
			}
		classify:
			key := ""
			if labels["derived-handler"] || labels["sibling-handlers"] || labels["several-records-one-handler"] || labels["group"] || labels["logvaluer"] || labels["non-standard-level"] || labels["any"] {
				key = fmt.Sprintf("%s|%v|%d|%d|%s|%v|%v", format, L, int(level), len(chain), vlib.JoinSorted(labels), direct, wantEmit)
			}
			ls := []string{"format=" + format, fmt.Sprintf("emit=%v", wantEmit)}
			for l := range labels {
				ls = append(ls, l)
			}
			vlib.Case("TestHandler", key, ls...)
			if key != "" && vlib.WantSample("TestHandler/"+format) {
				vlib.Sample("TestHandler/"+format, map[string]any{"scenario": desc})
			}
		} // records
	})
}

func firstLine(p []byte) []byte {
	if i := strings.IndexByte(string(p), '\n'); i >= 0 {
		return p[:i+1]
	}
	return p
}

func describeChain(c []deriv) string {
	var parts []string
	for _, d := range c {
		if d.Group != "" {
			parts = append(parts, fmt.Sprintf("WithGroup(%q)", d.Group))
		} else {
			parts = append(parts, "WithAttrs("+vlib.Describe(d.Exp)+")")
		}
	}
	return "[" + strings.Join(parts, " ") + "]"
}

// ---------- (b) std log bridge ----------

func TestBridge(t *testing.T) {
	rapid.Check(t, func(t *rapid.T) {
		defer vlib.Canon()()
		L := rapid.SampledFrom(vlib.Builtins).Draw(t, "loggerLevel")
		S := rapid.SampledFrom(vlib.Builtins).Draw(t, "bridgeSeverity")
		format := rapid.SampledFrom([]string{"json", "logfmt"}).Draw(t, "format")
		body := rapid.OneOf(rapid.StringMatching(`[a-z]{0,8}( [a-z]{1,8}){0,3}`), rapid.StringMatching(`[a-z]{1,5}\n[a-z]{1,5}`), vlib.GenAnyString()).Draw(t, "body")
		msg := body + rapid.SampledFrom([]string{"", "\n", "\n\n"}).Draw(t, "trailingNewlines")
		how := rapid.SampledFrom([]string{"Print", "Printf", "Println", "Writer"}).Draw(t, "how")

		log := vlib.NewEventLog()
		w := vlib.NewRec(log, 1, 0)
		lg := slog.New("bridged").SetWriter(w).SetErrorWriter(w)
		if format == "json" {
			lg.SetJSONMode(true)
		} else {
			lg.SetColorMode(false)
		}
		lg.SetLevel(L)
		std := slog.NewLogLogger(lg, S)
		built := L
		if rapid.IntRange(0, 2).Draw(t, "levelChangedAfterBridgeBuilt") == 0 {
			L = rapid.SampledFrom(vlib.Builtins).Draw(t, "laterLevel")
			lg.SetLevel(L) // admission is decided per message by the logger's CURRENT level
		}
		desc := fmt.Sprintf("logger level %v (was %v when the bridge was built), bridge severity %v, %s(%q), format %s", L, built, S, how, msg, format)
		if how == "Writer" {
			// the bridge as a plain io.Writer (log.Logger.Writer(), as handed to io.Copy, exec.Cmd.Stderr, http.Server.ErrorLog
			// users): a stream of messages, one per Write. Every message of the stream is a record when the severity is admitted
			chunks := []string{strings.TrimRight(msg, "\n") + "\n"}
			for i := rapid.IntRange(0, 3).Draw(t, "moreChunks"); i > 0; i-- {
				chunks = append(chunks, rapid.StringMatching(`[a-z]{1,8}( [a-z]{1,8}){0,3}`).Draw(t, "chunk")+"\n")
			}
			admit := model.Admit(L, S, is.DebugMode())
			var copied int64
			var cerr error
			func() {
				defer func() {
					if p := recover(); p != nil {
						t.Fatalf("C15 bridge %s: panicked: %v", desc, p)
					}
				}()
				copied, cerr = io.Copy(std.Writer(), &chunkReader{chunks: chunks})
			}()
			writes := log.Writes()
			if !admit {
				if len(writes) != 0 {
					vlib.Discrep(t, "C15/bridge-gate", "C15 bridge %s: %d records emitted for a stream copied to Writer(), the logger's gating says admitted=false", desc, len(writes))
				}
			} else {
				if len(writes) != len(chunks) {
					vlib.Discrep(t, "C15/bridge-stream", "C15 bridge %s: a stream of %d messages %q was copied to Writer() (io.Copy: %d bytes, error %v): %d records emitted", desc, len(chunks), chunks, copied, cerr, len(writes))
				}
				for i := 0; i < len(writes) && i < len(chunks); i++ {
					wantMsg := strings.TrimSuffix(chunks[i], "\n")
					p := writes[i].Payload
					if S == slog.AlwaysLevel && strings.Trim(wantMsg, " \t\r\n") == "" {
						if string(p) != "\n" {
							t.Fatalf("C15 bridge %s: blank message at the Always severity must be a bare newline (C02), got %q", desc, p)
						}
						continue
					}
					if S == slog.AlwaysLevel && vlib.LooksBlank(wantMsg) && string(p) == "\n" {
						continue // white space in the wide sense: either delivery is a reading of C02
					}
					exp := vlib.ExpRecord{LoggerName: "bridged", LevelName: vlib.BuiltinNames[S], Msg: wantMsg, TimeLayout: "15:04:05.000000Z07:00"}
					var prob *vlib.Problem
					if format == "json" {
						prob = vlib.CheckJSONRecord(p, exp)
					} else {
						exp.QuotingNotJudged = true // quoting is C05's clause
						prob = vlib.CheckLogfmtRecord(p, exp, false)
					}
					if prob != nil {
						vlib.Discrep(t, "C15/bridge-content", "C15 bridge %s: message %d of the stream: %s", desc, i, prob.Msg)
					}
				}
			}
			vlib.Case("TestBridge", fmt.Sprintf("%d|%d|%v|%s|%d", int(L), int(S), admit, how, len(chunks)), fmt.Sprintf("admit=%v", admit), "how="+how)
			return
		}
		func() {
			defer func() {
				if p := recover(); p != nil {
					t.Fatalf("C15 bridge %s: panicked: %v", desc, p)
				}
			}()
			switch how {
			case "Print":
				std.Print(msg)
			case "Printf":
				std.Printf("%s", msg)
			default:
				std.Println(msg)
			}
		}()
		// what package log hands to the writer: the text, newline-terminated
		text := msg
		if how == "Println" {
			text = msg + "\n"
		} else if !strings.HasSuffix(text, "\n") {
			text += "\n"
		}
		wantMsg := strings.TrimSuffix(text, "\n")
		admit := model.Admit(L, S, is.DebugMode())
		writes := log.Writes()
		if admit != (len(writes) == 1) || len(writes) > 1 {
			vlib.Discrep(t, "C15/bridge-gate", "C15 bridge %s: %d records emitted, the logger's gating says admitted=%v", desc, len(writes), admit)
		} else if admit {
			p := writes[0].Payload
			if S == slog.AlwaysLevel && strings.Trim(wantMsg, " \t\r\n") == "" {
				if string(p) != "\n" {
					t.Fatalf("C15 bridge %s: blank message at the Always severity must be a bare newline (C02), got %q", desc, p)
				}
			} else if S == slog.AlwaysLevel && vlib.LooksBlank(wantMsg) && string(p) == "\n" {
				// white space in the wide sense: either delivery is a reading of C02
			} else {
				exp := vlib.ExpRecord{LoggerName: "bridged", LevelName: vlib.BuiltinNames[S], Msg: wantMsg, TimeLayout: "15:04:05.000000Z07:00"}
				var prob *vlib.Problem
				if format == "json" {
					prob = vlib.CheckJSONRecord(p, exp)
				} else {
					exp.QuotingNotJudged = true // quoting is C05's clause
					prob = vlib.CheckLogfmtRecord(p, exp, false)
				}
				if prob != nil {
					vlib.Discrep(t, "C15/bridge-content", "C15 bridge %s: %s", desc, prob.Msg)
				}
			}
		}
		key := fmt.Sprintf("%d|%d|%v|%s|%d", int(L), int(S), admit, how, strings.Count(msg, "\n"))
		vlib.Case("TestBridge", key, fmt.Sprintf("admit=%v", admit), "how="+how)
		if vlib.WantSample("TestBridge") {
			vlib.Sample("TestBridge", map[string]any{"scenario": desc, "admitted": admit})
		}
	})
}

// ---------- (c) Entry.Log with any log/slog level ----------

func TestLogLevelMapping(t *testing.T) {
	defer vlib.Canon()()
	for lv := -40; lv <= 40; lv++ {
		level := logslog.Level(lv)
		log := vlib.NewEventLog()
		w := vlib.NewRec(log, 1, 0)
		lg := slog.New("lvl").SetWriter(w).SetErrorWriter(w).SetJSONMode(true).SetLevel(slog.AlwaysLevel)
		func() {
			defer func() {
				if p := recover(); p != nil {
					t.Fatalf("C15 Logger.Log(level %d) panicked: %v", lv, p)
				}
			}()
			lg.Log(context.Background(), level, "level mapping probe")
		}()
		writes := log.Writes()
		if len(writes) != 1 {
			t.Fatalf("C15 Logger.Log(level %d) on an Always logger: %d records", lv, len(writes))
		}
		o, err := vlib.DecodeJSONRecord(writes[0].Payload)
		if err != nil {
			t.Fatalf("C15: %v", err)
		}
		got, _ := o.Vals["level"].(string)
		if ns, ok := namesake[level]; ok && got != vlib.BuiltinNames[ns] {
			vlib.Discrep(t, "C15/log-level-map", "C15 Logger.Log(%v) emitted at %q, want the namesake %q", level, got, vlib.BuiltinNames[ns])
		}
		if (got == "panic" && level != slog.LevelPanic) || (got == "fatal" && level != slog.LevelFatal) {
			vlib.Discrep(t, "C15/log-level-map", "C15 Logger.Log(log/slog level %d) was mapped to the terminating severity %q; only the explicit LevelFatal(16)/LevelPanic(17) constants may be", lv, got)
		}
		vlib.Case("TestLogLevelMapping", fmt.Sprintf("level-%d", lv), "mapped-to="+got)
		vlib.Sample("TestLogLevelMapping", map[string]any{"slog_level": lv, "emitted_as": got})
	}
	vlib.Exhaustive("Logger.Log with every log/slog level value -40..40")
}

var _ = errors.New
var _ = time.Now

// chunkReader hands out one chunk per Read.
type chunkReader struct{ chunks []string }

func (c *chunkReader) Read(p []byte) (int, error) {
	if len(c.chunks) == 0 {
		return 0, io.EOF
	}
	n := copy(p, c.chunks[0])
	if n < len(c.chunks[0]) {
		c.chunks[0] = c.chunks[0][n:]
	} else {
		c.chunks = c.chunks[1:]
	}
	return n, nil
}

// decorated is a user-defined Logger: it embeds one and adds nothing.
type decorated struct{ slog.Logger }
