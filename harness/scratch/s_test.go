package scratch

import (
	"errors"
	"fmt"
	"os"
	"testing"
	"time"

	"github.com/hedzr/logg/slog"
	"github.com/hedzr/logg/slog/verifharness/vlib"
	errorsv3 "gopkg.in/hedzr/errors.v3"
)

type w struct{}

func (w) Write(p []byte) (int, error) { fmt.Fprintf(os.Stdout, "%q\n", p); return len(p), nil }

func TestShow(t *testing.T) {
	defer vlib.Canon()()
	for _, f := range []string{"json", "logfmt", "color"} {
		lg := slog.New("nm").SetWriter(w{}).SetErrorWriter(w{})
		switch f {
		case "json":
			lg.SetJSONMode(true)
		case "logfmt":
			lg.SetColorMode(false)
		}
		lg.SetLevel(slog.AlwaysLevel)
		tm := time.Date(2024, 1, 2, 3, 4, 5, 678, time.FixedZone("", 3600))
		lg.Info("hello \"w\"\n2nd", "s", "a b\x01", "i", -5, "u", uint8(7), "f", 1.5, "f32", float32(0.1), "c", complex(1, -2), "b", true, "t", tm, "d", 1500*time.Millisecond,
			"e", errors.New("bo\"om"), "str", vlib.Str{S: "x y"}, "by", []byte("raw\"b"), "n", nil,
			"ss", []string{"a", "b\""}, "is", []int{1, 2}, "fs", []float64{1.5}, "bs", []bool{true}, "ds", []time.Duration{time.Second}, "ts", []time.Time{tm},
			"st", vlib.Pt{X: 1, Y: "q\"z"}, "mp", map[string]int{"a": 1}, "mi", vlib.MyInt(3), "cs", []complex128{1}, "us", []uint16{3},
			slog.Group("g", "k", 1, "s", "v", slog.Group("h", "z", 2), slog.Group("emp")), "zz", 9, "e3", errorsv3.New("v3err"), "nan", []float64{}, "lv", slog.InfoLevel)
		lg.Info("m", slog.Group("g", "k", 1), "zz", 9)
		lg.Info("m", slog.Group("emp"))
		lg.Info("m")
		lg.Info("  lead", "a", 1)
	}
}
