// C01 — level gating: one admission rule, identical at every entry point.
package c01

import (
	"context"
	"fmt"
	"github.com/hedzr/is/states"
	"math"
	"testing"

	"github.com/hedzr/is"
	"github.com/hedzr/logg/slog"
	"github.com/hedzr/logg/slog/verifharness/vlib"
	"pgregory.net/rapid"
)

func TestMain(m *testing.M) { vlib.Main(m) }

var caseCounter int

// appEnv is an application-provided holder of the process-wide switches: everything but the debug switch is
// delegated to the stock implementation.
type appEnv struct {
	states.CmdrMinimal
	debug bool
}

func (e *appEnv) GetDebugMode() bool  { return e.debug }
func (e *appEnv) SetDebugMode(b bool) { e.debug = b }

type regSpec struct {
	Value   int
	Title   string
	TreatAs int // -1: none
	ErrDev  bool
}

type scenario struct {
	Regs       []regSpec
	Primed     bool   // the logger has answered admission questions and issued records before each change of the debug mode (whatever it remembers of its answers is then out of date)
	DebugHow   string // off | explicit | side-effect
	LoggerKind string // root-iface | root-entry | child | grandchild
	L, R       slog.Level
	EP         *vlib.EntryPoint
	LevelWr    bool
	NilCtx     bool
	// DebugLate: the debug-mode change happens after the logger under test got its level
	// (the gate must consult the process-wide mode at the time of the call)
	DebugLate bool
	// DebugOffAgain: debug mode is switched on and off again before the call
	DebugOffAgain bool
	// OwnEnv: the holder of the process-wide switches is replaced by an application-provided one for the case
	OwnEnv bool
	// Bare: the Println entry points are called without any argument (a blank line at the Always severity) and the
	// other Print/Println ones with an empty message: gated like every other call
	Bare bool
}

func levelKind(l slog.Level, m *vlib.LevelModel) string {
	switch {
	case l >= 0 && l <= slog.TraceLevel:
		return "ordinary"
	case l >= slog.OffLevel && l <= slog.FailLevel:
		return "special-builtin"
	}
	if _, ok := m.Names[l]; ok {
		if _, ok2 := m.TreatAs[l]; ok2 {
			return "registered-treated-as"
		}
		return "registered"
	}
	return "unregistered"
}

// run executes one scenario against the real package and compares with the model.
func run(t vlib.TB, test string, sc scenario) {
	defer vlib.Canon()()
	model := vlib.NewLevelModel()
	for _, r := range sc.Regs {
		var opts []slog.RegOpt
		var ta *slog.Level
		if r.TreatAs >= 0 {
			l := slog.Level(r.TreatAs)
			ta = &l
			opts = append(opts, slog.RegWithTreatedAsLevel(l))
		}
		if r.ErrDev {
			opts = append(opts, slog.RegWithPrintToErrorDevice(true))
		}
		if err := slog.RegisterLevel(slog.Level(r.Value), r.Title, opts...); err == nil {
			model.Register(slog.Level(r.Value), r.Title, ta, r.ErrDev)
		}
	}

	log := vlib.NewEventLog()
	normal, errw, lvlw := vlib.NewRec(log, 1, 0), vlib.NewRec(log, 2, 1), vlib.NewRec(log, 3, 0)

	root := slog.New("c01root")
	var lg slog.Logger = root
	switch sc.LoggerKind {
	case "root-entry":
		lg = root.SetColorMode(root.ColorMode()) // the *Entry behind the interface (no state change)
	case "child":
		lg = root.New("kid")
	case "grandchild":
		lg = root.New("kid").New("grandkid")
	}
	lg.SetWriter(normal)
	lg.SetErrorWriter(errw)
	if sc.LevelWr {
		lg.AddLevelWriter(sc.R, lvlw)
	}

	if sc.OwnEnv {
		// the application brings its own holder of the process-wide switches (hedzr/cmdr does, through
		// states.UpdateEnvWith): "process-wide debug mode" is whatever the holder in force says
		stock := states.Env()
		states.UpdateEnvWith(&appEnv{CmdrMinimal: stock})
		defer states.UpdateEnvWith(stock)
	}
	debug := false
	setDebug := func() {
		switch sc.DebugHow {
		case "explicit":
			is.SetDebugMode(true)
			debug = true
		case "side-effect":
			other := slog.New("other")
			other.SetLevel(slog.DebugLevel) // documented side effect: switches process-wide debug mode on
			other.SetLevel(slog.ErrorLevel)
			debug = true
		case "side-effect-child":
			// "an earlier SetLevel(Debug) on ANY logger": here on a child / grandchild of an unrelated root
			kid := slog.New("other").New("otherkid")
			if caseCounter%2 == 0 {
				kid = kid.New("othergrandkid")
			}
			kid.SetLevel(slog.DebugLevel)
			kid.SetLevel(slog.ErrorLevel)
			debug = true
		}
	}
	if !sc.DebugLate {
		setDebug()
	}
	lg.SetLevel(sc.L)
	if sc.L == slog.DebugLevel {
		if sc.DebugHow == "off" {
			is.SetDebugMode(false) // undo the side effect so that "debug off" really is off
		} else {
			debug = true
		}
	}
	prime := func() {
		if !sc.Primed {
			return
		}
		_ = lg.Enabled(sc.R)
		_ = lg.Enabled(slog.DebugLevel)
		_ = lg.EnabledContext(context.Background(), slog.InfoLevel)
		lg.Debug("priming record")
		lg.LogAttrs(context.Background(), sc.R, "priming record at the severity under test")
		lg.Warn("priming record")
		log.Reset()
	}
	prime()
	if sc.DebugLate {
		setDebug()
		prime()
	}
	if sc.DebugOffAgain && debug {
		is.SetDebugMode(false)
		debug = false
	}
	caseCounter++
	if is.DebugMode() && !debug {
		// the statement says which calls are KNOWN to switch the mode on (SetLevel(Debug) on any logger); it does not say
		// that nothing else does. The mode is an input of the admission rule: take it as it is
		debug = true
	}
	if is.DebugMode() != debug {
		t.Fatalf("C01 process-wide debug mode is %v after the history %q (late=%v, off again=%v); the statement's side-effect rule says %v", is.DebugMode(), sc.DebugHow, sc.DebugLate, sc.DebugOffAgain, debug)
	}
	if sc.EP.Pkg {
		slog.SetDefault(lg)
	}

	want := model.Admit(sc.L, sc.R, debug)
	if sc.EP.Kind == "verbose" {
		want = false
	}
	var ctx context.Context = context.Background()
	if sc.NilCtx {
		ctx = context.TODO()
	}
	where := fmt.Sprintf("%s on %s logger, logger level %d(%v), severity %d(%v), debug mode %v(%s, changed after the level was set=%v, off again=%v, logger used before the changes=%v), registry %+v",
		sc.EP.Name, sc.LoggerKind, int(sc.L), sc.L, int(sc.R), sc.R, debug, sc.DebugHow, sc.DebugLate, sc.DebugOffAgain, sc.Primed, sc.Regs)

	func() {
		defer func() {
			if p := recover(); p != nil {
				t.Fatalf("C01 %s: call panicked: %v", where, p)
			}
		}()
		switch {
		case sc.Bare && sc.EP.Name == "Logger.Println":
			lg.Println()
		case sc.Bare && sc.EP.Name == "slog.Println":
			slog.Println()
		case sc.Bare && sc.EP.Level == slog.AlwaysLevel && sc.EP.Fixed:
			sc.EP.Call(lg, ctx, sc.R, "", nil)
		default:
			sc.EP.Call(lg, ctx, sc.R, "gate probe", []any{"k", 1})
		}
	}()
	got := len(log.Writes()) > 0
	if got != want {
		vlib.Discrep(t, "C01/gate:"+sc.EP.Name, "C01 %s: emitted=%v, admission rule says %v (events: %v)", where, got, want, log.Snapshot())
	}
	if sc.EP.Kind != "verbose" {
		if e := lg.Enabled(sc.R); e != want {
			t.Fatalf("C01 %s: Enabled() = %v, rule says %v", where, e, want)
		}
		if e := lg.EnabledContext(ctx, sc.R); e != want {
			t.Fatalf("C01 %s: EnabledContext() = %v, rule says %v", where, e, want)
		}
	}

	clause := model.Clause(sc.L, sc.R, debug)
	lk, rk := levelKind(sc.L, model), levelKind(sc.R, model)
	key := ""
	if clause != "plain-order" || sc.EP.Kind != "verb" {
		key = fmt.Sprintf("%s|%s|%s|%s|%v", clause, sc.EP.Name, lk, rk, want)
	}
	vlib.Case(test, key, "clause="+clause, "ep="+sc.EP.Kind, "L="+lk, "r="+rk, fmt.Sprintf("admit=%v", want), "debug="+sc.DebugHow, fmt.Sprintf("debugLate=%v", sc.DebugLate))
	if key != "" && vlib.WantSample(test+"/"+clause) {
		vlib.Sample(test+"/"+clause, map[string]any{"entry": sc.EP.Name, "logger": sc.LoggerKind, "L": int(sc.L), "r": int(sc.R),
			"debug": sc.DebugHow, "registry": sc.Regs, "admitted": want})
	}
}

func genRegs() *rapid.Generator[[]regSpec] {
	return rapid.Custom(func(t *rapid.T) []regSpec {
		n := rapid.IntRange(0, 4).Draw(t, "nreg")
		var regs []regSpec
		for i := 0; i < n; i++ {
			v := rapid.OneOf(
				rapid.IntRange(12, 40),
				rapid.IntRange(-50, -1),
				rapid.SampledFrom([]int{12, 13, 100, 1 << 20, math.MaxInt32, math.MaxInt64, math.MinInt64, 0, 3, 7, 8, 11}),
			).Draw(t, "value")
			ta := -1
			if rapid.Bool().Draw(t, "hasTreatAs") {
				ta = rapid.IntRange(0, 6).Draw(t, "treatAs") // Panic..Trace
			}
			regs = append(regs, regSpec{Value: v, Title: fmt.Sprintf("cust%d", i), TreatAs: ta, ErrDev: rapid.Bool().Draw(t, "errdev")})
		}
		return regs
	})
}

// genLevel draws a logger level or a severity from what the property quantifies over: the 12 built-in levels and the
// levels of regs that RegisterLevel will accept (a value outside the built-in range that no earlier registration took;
// the titles are distinct). Numeric values that are neither are outside the claim: the library may treat them as it likes.
func genLevel(regs []regSpec, label string) *rapid.Generator[slog.Level] {
	gens := []*rapid.Generator[slog.Level]{
		rapid.SampledFrom(vlib.Builtins),
		rapid.SampledFrom(vlib.Builtins),
	}
	var vals []slog.Level
	taken := map[int]bool{}
	for _, r := range regs {
		if (r.Value >= 0 && r.Value <= int(slog.FailLevel)) || taken[r.Value] {
			continue
		}
		taken[r.Value] = true
		vals = append(vals, slog.Level(r.Value))
	}
	if len(vals) > 0 {
		gens = append(gens, rapid.SampledFrom(vals), rapid.SampledFrom(vals), rapid.SampledFrom(vals))
	}
	return rapid.OneOf(gens...)
}

func TestAdmissionGenerated(t *testing.T) {
	rapid.Check(t, func(t *rapid.T) {
		var sc scenario
		sc.Regs = genRegs().Draw(t, "regs")
		sc.DebugHow = rapid.SampledFrom([]string{"off", "off", "explicit", "side-effect", "side-effect-child"}).Draw(t, "debug")
		sc.LoggerKind = rapid.SampledFrom([]string{"root-iface", "root-entry", "child", "grandchild"}).Draw(t, "logger")
		sc.L = genLevel(sc.Regs, "L").Draw(t, "L")
		sc.R = genLevel(sc.Regs, "r").Draw(t, "r")
		eps := vlib.EntryPointsFor(sc.R)
		sc.EP = eps[rapid.IntRange(0, len(eps)-1).Draw(t, "ep")]
		sc.LevelWr = rapid.IntRange(0, 3).Draw(t, "levelwriter") == 0
		sc.NilCtx = rapid.Bool().Draw(t, "todoCtx")
		sc.DebugLate = rapid.Bool().Draw(t, "debugModeChangedAfterSetLevel")
		sc.DebugOffAgain = rapid.IntRange(0, 3).Draw(t, "debugOffAgain") == 0
		sc.Primed = rapid.Bool().Draw(t, "loggerUsedBeforeTheDebugModeChanges")
		sc.Bare = rapid.IntRange(0, 3).Draw(t, "bareCall") == 0
		sc.OwnEnv = rapid.IntRange(0, 4).Draw(t, "applicationProvidedEnvHolder") == 2
		run(t, "TestAdmissionGenerated", sc)
	})
}

// TestAdmissionMatrix enumerates the complete built-in sub-space:
// 12 logger levels x 12 severities x every entry point able to carry the
// severity x debug mode off/on (explicit) x root/child logger.
func TestAdmissionMatrix(t *testing.T) {
	n := 0
	for _, L := range vlib.Builtins {
		for _, R := range vlib.Builtins {
			for _, ep := range vlib.EntryPointsFor(R) {
				for _, dbg := range []string{"off", "explicit", "side-effect", "side-effect-child"} {
					for _, lk := range []string{"root-iface", "child"} {
						run(t, "TestAdmissionMatrix", scenario{DebugHow: dbg, LoggerKind: lk, L: L, R: R, EP: ep})
						n++
						if R == slog.AlwaysLevel && ep.Fixed {
							// the Print/Println family also without a message / without any argument
							run(t, "TestAdmissionMatrix", scenario{DebugHow: dbg, LoggerKind: lk, L: L, R: R, EP: ep, Bare: true})
							n++
						}
						if R == slog.DebugLevel {
							// the same cell with the mode switched after the level was set / switched off again
							run(t, "TestAdmissionMatrix", scenario{DebugHow: dbg, LoggerKind: lk, L: L, R: R, EP: ep, DebugLate: true})
							run(t, "TestAdmissionMatrix", scenario{DebugHow: dbg, LoggerKind: lk, L: L, R: R, EP: ep, DebugOffAgain: true})
							run(t, "TestAdmissionMatrix", scenario{DebugHow: dbg, LoggerKind: lk, L: L, R: R, EP: ep, DebugLate: true, Primed: true})
							run(t, "TestAdmissionMatrix", scenario{DebugHow: dbg, LoggerKind: lk, L: L, R: R, EP: ep, DebugOffAgain: true, Primed: true})
							n += 2
						}
					}
				}
			}
		}
	}
	vlib.Exhaustive(fmt.Sprintf("built-in levels: 12 logger levels x 12 severities x all entry points carrying the severity x debug{off,explicit,side-effect} x {root,child} = %d cells", n))
}
