// C19 — PrintCtx's exported buffer API behaves exactly like bytes.Buffer.
// Oracle: the same operation applied to a bytes.Buffer in lock-step.
package c19

import (
	"bytes"
	"context"
	"errors"
	"fmt"
	"io"
	"math"
	"strings"
	"testing"

	"github.com/hedzr/logg/slog"
	"github.com/hedzr/logg/slog/verifharness/vlib"
	"pgregory.net/rapid"
)

func TestMain(m *testing.M) { vlib.Main(m) }

type bufAPI interface {
	Write([]byte) (int, error)
	WriteString(string) (int, error)
	WriteByte(byte) error
	WriteRune(rune) (int, error)
	Read([]byte) (int, error)
	ReadByte() (byte, error)
	ReadRune() (rune, int, error)
	UnreadByte() error
	UnreadRune() error
	Next(int) []byte
	ReadBytes(byte) ([]byte, error)
	ReadString(byte) (string, error)
	ReadFrom(io.Reader) (int64, error)
	WriteTo(io.Writer) (int64, error)
	Truncate(int)
	Grow(int)
	Reset()
	Len() int
	Bytes() []byte
	String() string
}

var (
	_ bufAPI = (*bytes.Buffer)(nil)
	_ bufAPI = (*slog.PrintCtx)(nil)
)

var errInjected = errors.New("injected failure")

// scripted reader for ReadFrom
type chunk struct {
	N    int // bytes to deliver (clipped to len(p)); -1: report a negative count
	Fill byte
	Err  int // 0 nil, 1 EOF together with the data, 2 injected error, 3 an error wrapping io.EOF
}
type scriptReader struct {
	script []chunk
	i      int
}

func (r *scriptReader) Read(p []byte) (int, error) {
	if r.i >= len(r.script) {
		return 0, io.EOF
	}
	c := r.script[r.i]
	r.i++
	if c.N < 0 {
		return -1, nil
	}
	n := c.N
	if n > len(p) {
		n = len(p)
	}
	for k := 0; k < n; k++ {
		p[k] = c.Fill + byte(k)
	}
	switch c.Err {
	case 1:
		return n, io.EOF
	case 2:
		return n, errInjected
	case 3:
		return n, fmt.Errorf("the stream ended early: %w", io.EOF) // an error that wraps io.EOF is an error, not the end
	}
	return n, nil
}

// scripted writer for WriteTo
type scriptWriter struct {
	Mode int // 0 accept all, 1 short (half, nil error), 2 error after half, 3 over-report, 4 error with zero
	got  []byte
}

func (w *scriptWriter) Write(p []byte) (int, error) {
	switch w.Mode {
	case 1:
		n := len(p) / 2
		w.got = append(w.got, p[:n]...)
		return n, nil
	case 2:
		n := len(p) / 2
		w.got = append(w.got, p[:n]...)
		return n, errInjected
	case 3:
		w.got = append(w.got, p...)
		return len(p) + 1, nil
	case 4:
		return 0, errInjected
	}
	w.got = append(w.got, p...)
	return len(p), nil
}

type op struct {
	Kind   string
	N      int
	Data   []byte
	R      rune
	Delim  byte
	Script []chunk
	WMode  int
}

func (o op) String() string {
	switch o.Kind {
	case "Write", "WriteString":
		return fmt.Sprintf("%s(len=%d)", o.Kind, len(o.Data))
	case "WriteByte":
		return fmt.Sprintf("WriteByte(%#x)", o.Delim)
	case "WriteRune":
		return fmt.Sprintf("WriteRune(%#x)", o.R)
	case "Read", "Next", "Truncate", "Grow":
		return fmt.Sprintf("%s(%d)", o.Kind, o.N)
	case "ReadBytes", "ReadString":
		return fmt.Sprintf("%s(%#x)", o.Kind, o.Delim)
	case "ReadFrom":
		return fmt.Sprintf("ReadFrom(%v)", o.Script)
	case "WriteTo":
		return fmt.Sprintf("WriteTo(mode=%d)", o.WMode)
	}
	return o.Kind
}

var kinds = []string{
	"Write", "WriteString", "WriteByte", "WriteRune", "Read", "ReadByte", "ReadRune",
	"UnreadByte", "UnreadRune", "Next", "ReadBytes", "ReadString", "ReadFrom", "WriteTo",
	"Truncate", "Grow", "Reset", "Len", "Bytes", "String",
}

var writeKinds = map[string]bool{"Write": true, "WriteString": true, "WriteByte": true, "WriteRune": true, "ReadFrom": true}
var readKinds = map[string]bool{"Read": true, "ReadByte": true, "ReadRune": true, "UnreadByte": true, "UnreadRune": true,
	"Next": true, "ReadBytes": true, "ReadString": true, "WriteTo": true}

// sizes around every threshold of the implementation: small-buffer size 64,
// MinRead 512, the pooled 1024, doubling points.
func genSize() *rapid.Generator[int] {
	return rapid.OneOf(
		rapid.IntRange(-2, 3),
		rapid.IntRange(0, 300),
		rapid.SampledFrom([]int{31, 32, 33, 63, 64, 65, 127, 128, 129, 255, 256, 257, 511, 512, 513, 1023, 1024, 1025, 2047, 2048, 2049, 4096, 5000}),
		// the volumes a long-lived buffer sees (rare: drawn from an interior value of the selector)
		rapid.Custom(func(t *rapid.T) int {
			if rapid.IntRange(0, 11).Draw(t, "volume") != 5 {
				return rapid.IntRange(0, 300).Draw(t, "small")
			}
			return rapid.SampledFrom([]int{65535, 65536, 65537, 70000, 131072, 200000}).Draw(t, "large")
		}),
	)
}

func genHuge() *rapid.Generator[int] {
	return rapid.OneOf(
		rapid.Just(math.MaxInt),
		rapid.Map(rapid.IntRange(0, 70000), func(k int) int { return math.MaxInt - k }),
		rapid.Just(math.MinInt),
	)
}

func genData() *rapid.Generator[[]byte] {
	return rapid.Custom(func(t *rapid.T) []byte {
		n := genSize().Draw(t, "len")
		if n < 0 {
			n = 0
		}
		mode := rapid.IntRange(0, 3).Draw(t, "fill")
		b := make([]byte, n)
		switch mode {
		case 0: // ascii with newlines
			for i := range b {
				b[i] = "abc\nxyz 0123456789"[i%18]
			}
		case 1: // utf-8 multi-byte runs
			src := []byte("héllo—世界🙂\n")
			for i := range b {
				b[i] = src[i%len(src)]
			}
		case 2: // invalid utf-8 / arbitrary
			for i := range b {
				b[i] = byte(0x80 + (i*37)%0x80)
			}
		default:
			copy(b, rapid.SliceOfN(rapid.Byte(), 0, 16).Draw(t, "bytes"))
		}
		return b
	})
}

func genOp() *rapid.Generator[op] {
	return rapid.Custom(func(t *rapid.T) op {
		o := op{Kind: rapid.SampledFrom(kinds).Draw(t, "kind")}
		switch o.Kind {
		case "Write", "WriteString":
			o.Data = genData().Draw(t, "data")
		case "WriteByte":
			o.Delim = rapid.Byte().Draw(t, "b")
		case "WriteRune":
			o.R = rapid.OneOf(
				rapid.Rune(),
				rapid.SampledFrom([]rune{0, 'a', 0x7f, 0x80, 0x7ff, 0x800, 0xd800, 0xdfff, 0xfffd, 0xffff, 0x10000, 0x10ffff, 0x110000, -1, math.MinInt32, math.MaxInt32}),
			).Draw(t, "r")
		case "Read", "Next":
			o.N = genSize().Draw(t, "n")
			if o.Kind == "Read" && o.N < 0 {
				o.N = 0
			}
			if o.Kind == "Next" && rapid.IntRange(0, 19).Draw(t, "hugeNext") == 0 {
				o.N = math.MaxInt
			}
		case "Truncate":
			o.N = genSize().Draw(t, "n")
		case "Grow":
			if rapid.IntRange(0, 9).Draw(t, "huge") == 0 {
				o.N = genHuge().Draw(t, "n")
			} else {
				o.N = genSize().Draw(t, "n")
			}
		case "ReadBytes", "ReadString":
			o.Delim = rapid.SampledFrom([]byte{'\n', 'a', ' ', 0x80, 0, '9'}).Draw(t, "delim")
		case "ReadFrom":
			k := rapid.IntRange(0, 4).Draw(t, "chunks")
			if rapid.IntRange(0, 19).Draw(t, "idleReader") == 7 {
				// a reader that is idle for a long while (0, nil) before it delivers
				for i := rapid.SampledFrom([]int{99, 100, 101, 150, 1000}).Draw(t, "idleReads"); i > 0; i-- {
					o.Script = append(o.Script, chunk{N: 0})
				}
			}
			for i := 0; i < k; i++ {
				c := chunk{
					N:    rapid.OneOf(rapid.IntRange(0, 40), rapid.SampledFrom([]int{0, 1, 511, 512, 513, 2000})).Draw(t, "cn"),
					Fill: rapid.Byte().Draw(t, "fill"),
					Err:  rapid.SampledFrom([]int{0, 0, 0, 1, 2, 3}).Draw(t, "cerr"),
				}
				if rapid.IntRange(0, 24).Draw(t, "neg") == 0 {
					c.N = -1
				}
				o.Script = append(o.Script, c)
				if c.Err != 0 || c.N < 0 {
					break
				}
			}
		case "WriteTo":
			o.WMode = rapid.SampledFrom([]int{0, 0, 1, 2, 3, 4}).Draw(t, "wmode")
		}
		return o
	})
}

type outcome struct {
	Panicked bool
	PanicVal any
	Ints     []int64
	Bytes    []byte
	Err      error
	Retain   []byte // the very slice ReadBytes returned (documented to be a copy: must never change later)
}

func errClass(e error) string {
	switch {
	case e == nil:
		return "nil"
	case e == io.EOF:
		return "EOF"
	case e == io.ErrShortWrite:
		return "ErrShortWrite"
	case e == errInjected:
		return "injected"
	}
	return "other"
}

func panicClass(v any) string {
	if e, ok := v.(error); ok {
		if e == bytes.ErrTooLarge || e == slog.ErrTooLarge {
			return "too-large"
		}
		return "error"
	}
	return "other"
}

func apply(b bufAPI, o op) (out outcome) {
	defer func() {
		if r := recover(); r != nil {
			out.Panicked = true
			out.PanicVal = r
		}
	}()
	switch o.Kind {
	case "Write":
		n, err := b.Write(o.Data)
		out.Ints, out.Err = []int64{int64(n)}, err
	case "WriteString":
		n, err := b.WriteString(string(o.Data))
		out.Ints, out.Err = []int64{int64(n)}, err
	case "WriteByte":
		out.Err = b.WriteByte(o.Delim)
	case "WriteRune":
		n, err := b.WriteRune(o.R)
		out.Ints, out.Err = []int64{int64(n)}, err
	case "Read":
		p := make([]byte, o.N)
		n, err := b.Read(p)
		out.Ints, out.Err = []int64{int64(n)}, err
		if n >= 0 && n <= len(p) {
			out.Bytes = p[:n]
		}
	case "ReadByte":
		c, err := b.ReadByte()
		out.Ints, out.Err = []int64{int64(c)}, err
	case "ReadRune":
		r, sz, err := b.ReadRune()
		out.Ints, out.Err = []int64{int64(r), int64(sz)}, err
	case "UnreadByte":
		out.Err = b.UnreadByte()
	case "UnreadRune":
		out.Err = b.UnreadRune()
	case "Next":
		out.Bytes = append([]byte(nil), b.Next(o.N)...)
	case "ReadBytes":
		line, err := b.ReadBytes(o.Delim)
		out.Bytes, out.Err = append([]byte(nil), line...), err
		out.Retain = line
	case "ReadString":
		line, err := b.ReadString(o.Delim)
		out.Bytes, out.Err = []byte(line), err
	case "ReadFrom":
		n, err := b.ReadFrom(&scriptReader{script: o.Script})
		out.Ints, out.Err = []int64{n}, err
	case "WriteTo":
		w := &scriptWriter{Mode: o.WMode}
		n, err := b.WriteTo(w)
		out.Ints, out.Err, out.Bytes = []int64{n}, err, w.got
	case "Truncate":
		b.Truncate(o.N)
	case "Grow":
		b.Grow(o.N)
	case "Reset":
		b.Reset()
	case "Len":
		out.Ints = []int64{int64(b.Len())}
	case "Bytes":
		out.Bytes = append([]byte(nil), b.Bytes()...)
	case "String":
		out.Bytes = []byte(b.String())
	}
	return
}

func sameInts(a, b []int64) bool {
	if len(a) != len(b) {
		return false
	}
	for i := range a {
		if a[i] != b[i] {
			return false
		}
	}
	return true
}

func start(t *rapid.T) (bufAPI, bufAPI, string) {
	kind := rapid.SampledFrom([]string{"nil", "zero", "lenLTcap", "lenEQcap", "string", "emptycap"}).Draw(t, "start")
	switch kind {
	case "nil":
		return slog.NewPrintCtx(nil), bytes.NewBuffer(nil), kind
	case "zero":
		return &slog.PrintCtx{}, &bytes.Buffer{}, kind
	case "lenLTcap":
		d := genData().Draw(t, "init")
		extra := rapid.SampledFrom([]int{1, 7, 64, 512, 1024}).Draw(t, "extra")
		a := make([]byte, len(d), len(d)+extra)
		b := make([]byte, len(d), len(d)+extra)
		copy(a, d)
		copy(b, d)
		return slog.NewPrintCtx(a), bytes.NewBuffer(b), kind
	case "lenEQcap":
		d := genData().Draw(t, "init")
		a := make([]byte, len(d))
		b := make([]byte, len(d))
		copy(a, d)
		copy(b, d)
		return slog.NewPrintCtx(a), bytes.NewBuffer(b), kind
	case "emptycap":
		c := rapid.SampledFrom([]int{1, 63, 64, 65, 1024}).Draw(t, "cap")
		return slog.NewPrintCtx(make([]byte, 0, c)), bytes.NewBuffer(make([]byte, 0, c)), kind
	default:
		d := genData().Draw(t, "init")
		return slog.NewPrintCtxString(string(d)), bytes.NewBufferString(string(d)), kind
	}
}

func checkSequence(t *rapid.T, test string) {
	pc, ref, startKind := start(t)
	ops := rapid.SliceOfN(genOp(), 1, 40).Draw(t, "ops")
	if rapid.IntRange(0, 9).Draw(t, "bigVolumeTemplate") == 4 {
		// a buffer that has had much data through it: a big write, a big read of some kind, then an unread
		w := op{Kind: "Write", Data: bytes.Repeat([]byte("0123456789abcdef"), rapid.SampledFrom([]int{4096, 8192, 12500}).Draw(t, "bigWrite"))}
		r := op{Kind: rapid.SampledFrom([]string{"Read", "Read", "Next"}).Draw(t, "bigReadKind"), N: rapid.SampledFrom([]int{65535, 65536, 65537, 100000, 131072}).Draw(t, "bigRead")}
		u := op{Kind: rapid.SampledFrom([]string{"UnreadByte", "UnreadRune", "ReadByte"}).Draw(t, "afterBigRead")}
		at := rapid.IntRange(0, len(ops)).Draw(t, "templateAt")
		ops = append(ops[:at:at], append([]op{w, r, u}, ops[at:]...)...)
	}

	var desc []string
	type kept struct {
		at     int
		live   []byte // slice handed out by PrintCtx.ReadBytes
		frozen []byte // its contents at that moment
	}
	var retained []kept
	written, hasRead, hasWrite, readAfterWrite := ref.Len(), false, false, false
	for i, o := range ops {
		desc = append(desc, o.Kind)
		if writeKinds[o.Kind] {
			hasWrite = true
			written += len(o.Data) + 4
			for _, c := range o.Script {
				if c.N > 0 {
					written += c.N
				}
			}
		}
		if readKinds[o.Kind] {
			hasRead = true
			if hasWrite {
				readAfterWrite = true
			}
		}
		got, want := apply(pc, o), apply(ref, o)
		where := fmt.Sprintf("step %d %v (start=%s, history=%v)", i, o, startKind, desc)
		if got.Panicked != want.Panicked {
			t.Fatalf("C19 %s: PrintCtx panicked=%v (%v), bytes.Buffer panicked=%v (%v)", where, got.Panicked, got.PanicVal, want.Panicked, want.PanicVal)
		}
		if got.Panicked {
			if panicClass(got.PanicVal) != panicClass(want.PanicVal) {
				t.Fatalf("C19 %s: panic value class differs: %v vs %v", where, got.PanicVal, want.PanicVal)
			}
		} else {
			if !sameInts(got.Ints, want.Ints) {
				t.Fatalf("C19 %s: results differ: PrintCtx %v, bytes.Buffer %v", where, got.Ints, want.Ints)
			}
			if !bytes.Equal(got.Bytes, want.Bytes) {
				t.Fatalf("C19 %s: returned data differ: PrintCtx %q, bytes.Buffer %q", where, got.Bytes, want.Bytes)
			}
			if errClass(got.Err) != errClass(want.Err) {
				t.Fatalf("C19 %s: errors differ: PrintCtx %v, bytes.Buffer %v", where, got.Err, want.Err)
			}
		}
		if got.Retain != nil && !got.Panicked {
			retained = append(retained, kept{at: i, live: got.Retain, frozen: append([]byte(nil), got.Retain...)})
		}
		for _, k := range retained {
			if !bytes.Equal(k.live, k.frozen) {
				t.Fatalf("C19 %s: the line returned by ReadBytes at step %d changed afterwards (it aliases the buffer; bytes.Buffer returns a copy): was %q, now %q", where, k.at, k.frozen, k.live)
			}
		}
		if pc.Len() != ref.Len() {
			t.Fatalf("C19 %s: Len() afterwards: PrintCtx %d, bytes.Buffer %d", where, pc.Len(), ref.Len())
		}
		if pc.String() != ref.String() {
			t.Fatalf("C19 %s: contents afterwards differ: PrintCtx %q, bytes.Buffer %q", where, pc.String(), ref.String())
		}
	}
	key := ""
	if hasWrite && hasRead && readAfterWrite && written > 64 {
		key = startKind + ":" + strings.Join(desc, ",")
	}
	labels := []string{"start=" + startKind}
	if written > 1024 {
		labels = append(labels, "written>1024")
	}
	if readAfterWrite {
		labels = append(labels, "read-after-write")
	}
	vlib.Case(test, key, labels...)
	if key != "" && vlib.WantSample(test) {
		var s []string
		for _, o := range ops {
			s = append(s, o.String())
		}
		vlib.Sample(test, map[string]any{"start": startKind, "ops": s})
	}
}

func TestBufferDifferential(t *testing.T) {
	rapid.Check(t, func(t *rapid.T) { checkSequence(t, "TestBufferDifferential") })
}

// FuzzBufferDifferential drives the same property from the coverage-guided
// native fuzzer (thorough tier only).
func FuzzBufferDifferential(f *testing.F) {
	f.Fuzz(rapid.MakeFuzz(func(t *rapid.T) { checkSequence(t, "FuzzBufferDifferential") }))
}

// ---------- the encoder as it is handed to user marshallers, inside real records ----------

// opMarshaller is a user value whose marshaller drives the encoder it is handed.
type opMarshaller struct{ run func(enc *slog.PrintCtx) }

func (m opMarshaller) MarshalSlogObject(enc *slog.PrintCtx) error { m.run(enc); return nil }

// the two other exported interfaces through which a user value is handed the encoder
type arrMarshaller struct{ run func(enc *slog.PrintCtx) }

func (m arrMarshaller) MarshalSlogArray(enc *slog.PrintCtx) error { m.run(enc); return nil }

type serializer struct{ run func(enc *slog.PrintCtx) }

func (m serializer) SerializeValueTo(enc *slog.PrintCtx) { m.run(enc) }

// TestInsideMarshallers: records with 1-3 marshaller attributes are printed by a real logger (pooled
// contexts, all formats, several records in a row). Inside every marshaller call the reference is a fresh
// bytes.Buffer holding exactly what the encoder holds at that moment - whatever the library itself wrote
// since the previous marshaller call counts as a Write - and a generated operation sequence is applied to
// both in lock-step.
func TestInsideMarshallers(t *testing.T) {
	rapid.Check(t, func(t *rapid.T) {
		defer vlib.Canon()()
		format := rapid.SampledFrom([]string{"json", "logfmt", "color"}).Draw(t, "format")
		lg := slog.New("c19m").SetWriter(io.Discard).SetErrorWriter(io.Discard).SetLevel(slog.AlwaysLevel)
		switch format {
		case "json":
			lg.SetJSONMode(true)
		case "logfmt":
			lg.SetColorMode(false)
		}
		nested := slog.New("c19nested").SetWriter(io.Discard).SetErrorWriter(io.Discard).SetLevel(slog.AlwaysLevel)
		if format == "color" {
			nested.SetJSONMode(true)
		}
		var failure string
		var desc []string
		endsWithRead, unreadFirst := false, false
		nrec := rapid.IntRange(1, 3).Draw(t, "records")
		for r := 0; r < nrec; r++ {
			nm := rapid.IntRange(1, 3).Draw(t, "marshallers")
			args := []any{"plain", r}
			freshContext := rapid.IntRange(0, 5).Draw(t, "printedByAFreshContext") == 0
			// what the previous marshaller of this record left unread: whatever the library appends afterwards, the
			// next marshaller finds it at the front of the encoder (a write never changes what is unread before it)
			left, haveLeft := "", false
			continues := func(enc *slog.PrintCtx, tag string) {
				if haveLeft && failure == "" && !strings.HasPrefix(enc.String(), left) {
					failure = fmt.Sprintf("%s (format=%s): the previous marshaller left %d unread bytes %q; after the library's own writes the encoder holds %d bytes %q, which do not continue them", tag, format, len(left), clipStr(left), enc.Len(), clipStr(enc.String()))
				}
			}
			for m := 0; m < nm; m++ {
				ops := rapid.SliceOfN(genOp(), 0, 6).Draw(t, "ops")
				if rapid.IntRange(0, 2).Draw(t, "startWithUnread") == 0 {
					k := rapid.SampledFrom([]string{"UnreadByte", "UnreadRune"}).Draw(t, "unread")
					ops = append([]op{{Kind: k}}, ops...)
				}
				if rapid.IntRange(0, 3).Draw(t, "logsInside") == 0 && len(ops) > 0 {
					// the marshaller itself logs (another record is formatted while this encoder is in use), after a
					// write that makes the encoder grow
					at := rapid.IntRange(0, len(ops)).Draw(t, "logsInsideAt")
					big := op{Kind: "Write", Data: bytes.Repeat([]byte("grow "), rapid.SampledFrom([]int{10, 300, 700}).Draw(t, "growBy"))}
					ops = append(ops[:at:at], append([]op{big, {Kind: "nested-log"}}, ops[at:]...)...)
				}
				if rapid.IntRange(0, 2).Draw(t, "endWithRead") == 0 {
					k := rapid.SampledFrom([]string{"ReadByte", "ReadRune"}).Draw(t, "read")
					ops = append(ops, op{Kind: k})
				}
				for i := range ops {
					// a scripted reader delivers min(N, len(p)) bytes and len(p) depends on the capacity, which the
					// reference cannot share here: stay below bytes.MinRead so that nothing is clipped on either side
					if ops[i].Kind == "ReadFrom" {
						sc := append([]chunk(nil), ops[i].Script...)
						for j := range sc {
							if sc[j].N > 400 {
								sc[j].N = 400
							}
						}
						ops[i].Script = sc
					}
				}
				tag := fmt.Sprintf("record %d marshaller %d", r, m)
				// the string value the library prints between two marshallers: long ones make it reserve room at once
				betweenLen := rapid.SampledFrom([]int{1, 1, 30, 250, 900}).Draw(t, "lengthOfTheStringBetween")
				iface := rapid.SampledFrom([]string{"ObjectMarshaller", "ObjectMarshaller", "ArrayMarshaller", "ObjectSerializer"}).Draw(t, "interface")
				args = append(args, fmt.Sprintf("m%d", m), asUserValue(iface, func(enc *slog.PrintCtx) {
					if failure != "" {
						return
					}
					continues(enc, tag)
					if failure != "" {
						return
					}
					// the reference mirrors the encoder's layout (length, capacity, read offset): bytes.Buffer's own
					// behaviour depends on them (Grow slides or reallocates, after which UnreadByte restores nothing)
					total, capacity := enc.Cap()-enc.Available(), enc.Cap()
					off := total - enc.Len()
					raw := make([]byte, total, capacity)
					copy(raw[off:], enc.Bytes())
					ref := bytes.NewBuffer(raw)
					ref.Next(off)
					_, _ = ref.Write(nil) // forget that Next was a read: whatever the library wrote last was a write
					if len(ops) > 0 && (ops[0].Kind == "UnreadByte" || ops[0].Kind == "UnreadRune") && endsWithRead {
						unreadFirst = true
					}
					for i, o := range ops {
						desc = append(desc, o.Kind)
						if o.Kind == "nested-log" {
							nested.Warn(strings.Repeat("a record printed while a marshaller runs ", 40), "k", strings.Repeat("v", 1500))
						}
						got, want := apply(enc, o), apply(ref, o)
						where := fmt.Sprintf("%s step %d %v (format=%s)", tag, i, o, format)
						switch {
						case got.Panicked != want.Panicked:
							failure = fmt.Sprintf("%s: PrintCtx panicked=%v (%v), bytes.Buffer panicked=%v (%v)", where, got.Panicked, got.PanicVal, want.Panicked, want.PanicVal)
						case got.Panicked:
							if panicClass(got.PanicVal) != panicClass(want.PanicVal) {
								failure = fmt.Sprintf("%s: panic value class differs: %v vs %v", where, got.PanicVal, want.PanicVal)
							}
						case !sameInts(got.Ints, want.Ints):
							failure = fmt.Sprintf("%s: results differ: PrintCtx %v, bytes.Buffer %v", where, got.Ints, want.Ints)
						case !bytes.Equal(got.Bytes, want.Bytes):
							failure = fmt.Sprintf("%s: returned data differ: PrintCtx %q, bytes.Buffer %q", where, got.Bytes, want.Bytes)
						case errClass(got.Err) != errClass(want.Err):
							failure = fmt.Sprintf("%s: errors differ: PrintCtx %v, bytes.Buffer %v", where, got.Err, want.Err)
						case enc.Len() != ref.Len():
							failure = fmt.Sprintf("%s: Len() afterwards: PrintCtx %d, bytes.Buffer %d", where, enc.Len(), ref.Len())
						case enc.String() != ref.String():
							failure = fmt.Sprintf("%s: contents afterwards differ: PrintCtx %q, bytes.Buffer %q", where, enc.String(), ref.String())
						}
						if failure != "" {
							return
						}
					}
					endsWithRead = len(ops) > 0 && readKinds[ops[len(ops)-1].Kind] && ops[len(ops)-1].Kind != "UnreadByte" && ops[len(ops)-1].Kind != "UnreadRune"
					left, haveLeft = enc.String(), true
				}), fmt.Sprintf("m%dz", m), strings.Repeat("text ", betweenLen)) // the keys are sorted: m0 < m0z < m1 < m1z < plain < zzlast
			}
			args = append(args, "zzlast", opMarshaller{run: func(enc *slog.PrintCtx) { continues(enc, fmt.Sprintf("record %d after the last marshaller", r)) }})
			func() {
				defer func() {
					if p := recover(); p != nil && failure == "" {
						failure = fmt.Sprintf("record %d: the log call panicked: %v", r, p)
					}
				}()
				if freshContext {
					vlib.FreshContexts() // the record is printed into a buffer of the initial size, which has to grow on the way
				}
				lg.LogAttrs(context.Background(), slog.InfoLevel, "marshaller record", args...)
			}()
			if failure != "" {
				t.Fatalf("C19 inside a marshaller: %s; operations so far %v", failure, desc)
			}
		}
		key := ""
		if unreadFirst {
			key = format + ":" + strings.Join(desc, ",")
		}
		vlib.Case("TestInsideMarshallers", key, "format="+format, fmt.Sprintf("unread-after-library-write=%v", unreadFirst))
		if key != "" && vlib.WantSample("TestInsideMarshallers") {
			vlib.Sample("TestInsideMarshallers", map[string]any{"format": format, "records": nrec, "ops": desc})
		}
	})
}

func clipStr(s string) string {
	if len(s) > 160 {
		return s[:80] + "..." + s[len(s)-80:]
	}
	return s
}

func asUserValue(iface string, run func(enc *slog.PrintCtx)) any {
	switch iface {
	case "ArrayMarshaller":
		return arrMarshaller{run}
	case "ObjectSerializer":
		return serializer{run}
	}
	return opMarshaller{run}
}
