package vlib

import (
	"encoding/json"
	"fmt"
	"os"
	"path/filepath"
	"strings"
)

// Finding is one entry of /verif/known_findings.json.
type Finding struct {
	Status    string `json:"status"`    // "open" (genuine defect, recorded, not repaired) or "fixed"
	Property  string `json:"property"`  // C01 …
	Signature string `json:"signature"` // computed by the oracle from the failing input; exact match
	What      string `json:"what"`      // human description: which input / call site / history fails
	Commit    string `json:"commit,omitempty"`
}

var knownOpen = map[string]Finding{}

func loadKnown() {
	path := os.Getenv("VERIF_KNOWN")
	if path == "" {
		// package dir is /verif/harness/cXX when run through `go test`
		wd, _ := os.Getwd()
		for d := wd; d != "/" && d != "."; d = filepath.Dir(d) {
			cand := filepath.Join(d, "known_findings.json")
			if _, err := os.Stat(cand); err == nil {
				path = cand
				break
			}
		}
	}
	if path == "" {
		return
	}
	b, err := os.ReadFile(path)
	if err != nil {
		fmt.Fprintf(os.Stderr, "vlib: cannot read %s: %v\n", path, err)
		return
	}
	var doc struct {
		Findings []Finding `json:"findings"`
	}
	if err = json.Unmarshal(b, &doc); err != nil {
		fmt.Fprintf(os.Stderr, "vlib: cannot parse %s: %v\n", path, err)
		os.Exit(3)
	}
	for _, f := range doc.Findings {
		if f.Status == "open" {
			knownOpen[f.Signature] = f
		}
	}
}

// IsKnown tells whether sig is an open (recorded, unrepaired) finding.
func IsKnown(sig string) bool { _, ok := knownOpen[sig]; return ok }

// Discrep reports one discrepancy between the code and the oracle. If its
// signature is an open known finding it is counted and the search goes on;
// anything else fails the case (a violation). The signature is part of the
// failure text so that the driver and a reader can see it.
func Discrep(t TB, sig, format string, args ...any) {
	t.Helper()
	if IsKnown(sig) {
		st.mu.Lock()
		st.Known[sig]++
		if _, ok := st.KnownEx[sig]; !ok {
			msg := fmt.Sprintf(format, args...)
			if len(msg) > 600 {
				msg = msg[:600] + "…"
			}
			st.KnownEx[sig] = msg
		}
		st.mu.Unlock()
		return
	}
	t.Fatalf("DISCREPANCY[%s] %s", sig, fmt.Sprintf(format, args...))
}

// Short renders a value for failure messages without flooding the log.
func Short(v any) string {
	s := fmt.Sprintf("%q", fmt.Sprint(v))
	if len(s) > 400 {
		s = s[:400] + "…(" + fmt.Sprint(len(s)) + " bytes)"
	}
	return s
}

// JoinSorted joins a set of labels deterministically.
func JoinSorted(m map[string]bool) string {
	ks := make([]string, 0, len(m))
	for k, v := range m {
		if v {
			ks = append(ks, k)
		}
	}
	sortStrings(ks)
	return strings.Join(ks, ",")
}

func sortStrings(a []string) {
	for i := 1; i < len(a); i++ {
		for j := i; j > 0 && a[j] < a[j-1]; j-- {
			a[j], a[j-1] = a[j-1], a[j]
		}
	}
}
