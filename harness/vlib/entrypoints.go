package vlib

import (
	"context"
	logslog "log/slog"

	"github.com/hedzr/logg/slog"
)

// EntryPoint is one public way of issuing a record.
type EntryPoint struct {
	Name  string
	Kind  string // verb | ctxverb | generic | sloglevel | printf | pkg | pkgctx | verbose
	Fixed bool   // the entry point carries one severity only
	Level slog.Level
	Pkg   bool // goes through the default logger (harness must SetDefault first)
	NoArg bool // cannot carry attributes
	// Call issues the record. For Pkg entry points lg is ignored.
	Call func(lg slog.Logger, ctx context.Context, lvl slog.Level, msg string, args []any)
}

// Accepts tells whether the entry point can carry that severity.
func (e *EntryPoint) Accepts(lvl slog.Level) bool {
	if e.Kind == "verbose" {
		return true
	}
	if e.Kind == "sloglevel" {
		_, ok := SlogLevelFor[lvl]
		return ok
	}
	if e.Fixed {
		return e.Level == lvl
	}
	return true
}

// SlogLevelFor maps the severities that have a log/slog namesake constant.
var SlogLevelFor = map[slog.Level]logslog.Level{
	slog.DebugLevel: logslog.LevelDebug, slog.InfoLevel: logslog.LevelInfo, slog.WarnLevel: logslog.LevelWarn,
	slog.ErrorLevel: logslog.LevelError, slog.TraceLevel: slog.LevelTrace, slog.FatalLevel: slog.LevelFatal,
	slog.PanicLevel: slog.LevelPanic,
}

type verbFn = func(lg slog.Logger, msg string, args ...any)
type ctxFn = func(lg slog.Logger, ctx context.Context, msg string, args ...any)

// EntryPoints is the table of all public entry points (built once).
var EntryPoints = buildEntryPoints()

func buildEntryPoints() []*EntryPoint {
	var eps []*EntryPoint
	add := func(e *EntryPoint) { eps = append(eps, e) }

	verbs := []struct {
		n string
		l slog.Level
		f verbFn
		c ctxFn
		p func(msg string, args ...any)
		q func(ctx context.Context, msg string, args ...any)
	}{
		{"Panic", slog.PanicLevel, func(l slog.Logger, m string, a ...any) { l.Panic(m, a...) }, func(l slog.Logger, c context.Context, m string, a ...any) { l.PanicContext(c, m, a...) }, slog.Panic, slog.PanicContext},
		{"Fatal", slog.FatalLevel, func(l slog.Logger, m string, a ...any) { l.Fatal(m, a...) }, func(l slog.Logger, c context.Context, m string, a ...any) { l.FatalContext(c, m, a...) }, slog.Fatal, slog.FatalContext},
		{"Error", slog.ErrorLevel, func(l slog.Logger, m string, a ...any) { l.Error(m, a...) }, func(l slog.Logger, c context.Context, m string, a ...any) { l.ErrorContext(c, m, a...) }, slog.Error, slog.ErrorContext},
		{"Warn", slog.WarnLevel, func(l slog.Logger, m string, a ...any) { l.Warn(m, a...) }, func(l slog.Logger, c context.Context, m string, a ...any) { l.WarnContext(c, m, a...) }, slog.Warn, slog.WarnContext},
		{"Info", slog.InfoLevel, func(l slog.Logger, m string, a ...any) { l.Info(m, a...) }, func(l slog.Logger, c context.Context, m string, a ...any) { l.InfoContext(c, m, a...) }, slog.Info, slog.InfoContext},
		{"Debug", slog.DebugLevel, func(l slog.Logger, m string, a ...any) { l.Debug(m, a...) }, func(l slog.Logger, c context.Context, m string, a ...any) { l.DebugContext(c, m, a...) }, slog.Debug, slog.DebugContext},
		{"Trace", slog.TraceLevel, func(l slog.Logger, m string, a ...any) { l.Trace(m, a...) }, func(l slog.Logger, c context.Context, m string, a ...any) { l.TraceContext(c, m, a...) }, slog.Trace, slog.TraceContext},
		{"Print", slog.AlwaysLevel, func(l slog.Logger, m string, a ...any) { l.Print(m, a...) }, func(l slog.Logger, c context.Context, m string, a ...any) { l.PrintContext(c, m, a...) }, slog.Print, slog.PrintContext},
		{"OK", slog.OKLevel, func(l slog.Logger, m string, a ...any) { l.OK(m, a...) }, func(l slog.Logger, c context.Context, m string, a ...any) { l.OKContext(c, m, a...) }, slog.OK, slog.OKContext},
		{"Success", slog.SuccessLevel, func(l slog.Logger, m string, a ...any) { l.Success(m, a...) }, func(l slog.Logger, c context.Context, m string, a ...any) { l.SuccessContext(c, m, a...) }, slog.Success, slog.SuccessContext},
		{"Fail", slog.FailLevel, func(l slog.Logger, m string, a ...any) { l.Fail(m, a...) }, func(l slog.Logger, c context.Context, m string, a ...any) { l.FailContext(c, m, a...) }, slog.Fail, slog.FailContext},
	}
	for _, v := range verbs {
		v := v
		add(&EntryPoint{Name: "Logger." + v.n, Kind: "verb", Fixed: true, Level: v.l,
			Call: func(lg slog.Logger, _ context.Context, _ slog.Level, msg string, args []any) { v.f(lg, msg, args...) }})
		add(&EntryPoint{Name: "Logger." + v.n + "Context", Kind: "ctxverb", Fixed: true, Level: v.l,
			Call: func(lg slog.Logger, ctx context.Context, _ slog.Level, msg string, args []any) {
				v.c(lg, ctx, msg, args...)
			}})
		add(&EntryPoint{Name: "slog." + v.n, Kind: "pkg", Fixed: true, Level: v.l, Pkg: true,
			Call: func(_ slog.Logger, _ context.Context, _ slog.Level, msg string, args []any) { v.p(msg, args...) }})
		add(&EntryPoint{Name: "slog." + v.n + "Context", Kind: "pkgctx", Fixed: true, Level: v.l, Pkg: true,
			Call: func(_ slog.Logger, ctx context.Context, _ slog.Level, msg string, args []any) { v.q(ctx, msg, args...) }})
	}
	// Println family (severity Always; the message is the first argument)
	add(&EntryPoint{Name: "Logger.Println", Kind: "verb", Fixed: true, Level: slog.AlwaysLevel,
		Call: func(lg slog.Logger, _ context.Context, _ slog.Level, msg string, args []any) {
			lg.Println(append([]any{msg}, args...)...)
		}})
	add(&EntryPoint{Name: "Logger.PrintlnContext", Kind: "ctxverb", Fixed: true, Level: slog.AlwaysLevel,
		Call: func(lg slog.Logger, ctx context.Context, _ slog.Level, msg string, args []any) {
			lg.PrintlnContext(ctx, msg, args...)
		}})
	add(&EntryPoint{Name: "slog.Println", Kind: "pkg", Fixed: true, Level: slog.AlwaysLevel, Pkg: true,
		Call: func(_ slog.Logger, _ context.Context, _ slog.Level, msg string, args []any) {
			slog.Println(append([]any{msg}, args...)...)
		}})
	add(&EntryPoint{Name: "slog.PrintlnContext", Kind: "pkgctx", Fixed: true, Level: slog.AlwaysLevel, Pkg: true,
		Call: func(_ slog.Logger, ctx context.Context, _ slog.Level, msg string, args []any) {
			slog.PrintlnContext(ctx, msg, args...)
		}})
	// generic entry points
	add(&EntryPoint{Name: "Logger.LogAttrs", Kind: "generic",
		Call: func(lg slog.Logger, ctx context.Context, lvl slog.Level, msg string, args []any) {
			lg.LogAttrs(ctx, lvl, msg, args...)
		}})
	add(&EntryPoint{Name: "Logger.Logit", Kind: "generic",
		Call: func(lg slog.Logger, ctx context.Context, lvl slog.Level, msg string, args []any) {
			lg.Logit(ctx, lvl, msg, args...)
		}})
	add(&EntryPoint{Name: "Logger.Log", Kind: "sloglevel",
		Call: func(lg slog.Logger, ctx context.Context, lvl slog.Level, msg string, args []any) {
			lg.Log(ctx, SlogLevelFor[lvl], msg, args...)
		}})
	// printf style
	add(&EntryPoint{Name: "Logger.Infof", Kind: "printf", Fixed: true, Level: slog.InfoLevel, NoArg: true,
		Call: func(lg slog.Logger, _ context.Context, _ slog.Level, msg string, _ []any) { _ = lg.Infof("%s", msg) }})
	add(&EntryPoint{Name: "Logger.Warnf", Kind: "printf", Fixed: true, Level: slog.WarnLevel, NoArg: true,
		Call: func(lg slog.Logger, _ context.Context, _ slog.Level, msg string, _ []any) { _ = lg.Warnf("%s", msg) }})
	add(&EntryPoint{Name: "Logger.Errorf", Kind: "printf", Fixed: true, Level: slog.ErrorLevel, NoArg: true,
		Call: func(lg slog.Logger, _ context.Context, _ slog.Level, msg string, _ []any) { _ = lg.Errorf("%s", msg) }})
	// Verbose: never emits in a default build
	add(&EntryPoint{Name: "Logger.Verbose", Kind: "verbose",
		Call: func(lg slog.Logger, _ context.Context, _ slog.Level, msg string, args []any) {
			lg.Verbose(msg, args...)
		}})
	add(&EntryPoint{Name: "Logger.VerboseContext", Kind: "verbose",
		Call: func(lg slog.Logger, ctx context.Context, _ slog.Level, msg string, args []any) {
			lg.VerboseContext(ctx, msg, args...)
		}})
	add(&EntryPoint{Name: "slog.Verbose", Kind: "verbose", Pkg: true,
		Call: func(_ slog.Logger, _ context.Context, _ slog.Level, msg string, args []any) {
			slog.Verbose(msg, args...)
		}})
	add(&EntryPoint{Name: "slog.VerboseContext", Kind: "verbose", Pkg: true,
		Call: func(_ slog.Logger, ctx context.Context, _ slog.Level, msg string, args []any) {
			slog.VerboseContext(ctx, msg, args...)
		}})
	return eps
}

// EntryPointsFor returns the entry points able to carry the severity.
func EntryPointsFor(lvl slog.Level) []*EntryPoint {
	var out []*EntryPoint
	for _, e := range EntryPoints {
		if e.Accepts(lvl) {
			out = append(out, e)
		}
	}
	return out
}
