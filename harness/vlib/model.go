package vlib

import (
	"github.com/hedzr/logg/slog"
)

// Builtins are the 12 built-in levels in their documented ordinal order.
var Builtins = []slog.Level{
	slog.PanicLevel, slog.FatalLevel, slog.ErrorLevel, slog.WarnLevel, slog.InfoLevel, slog.DebugLevel,
	slog.TraceLevel, slog.OffLevel, slog.AlwaysLevel, slog.OKLevel, slog.SuccessLevel, slog.FailLevel,
}

// BuiltinNames are the documented names of the built-in levels.
var BuiltinNames = map[slog.Level]string{
	slog.PanicLevel: "panic", slog.FatalLevel: "fatal", slog.ErrorLevel: "error", slog.WarnLevel: "warning",
	slog.InfoLevel: "info", slog.DebugLevel: "debug", slog.TraceLevel: "trace", slog.OffLevel: "off",
	slog.AlwaysLevel: "always", slog.OKLevel: "ok", slog.SuccessLevel: "success", slog.FailLevel: "fail",
}

// LevelModel is the harness's own picture of the level registry: which level a
// severity is "treated as" for gating and which severities are error-class.
type LevelModel struct {
	TreatAs map[slog.Level]slog.Level
	ErrDev  map[slog.Level]bool
	Names   map[slog.Level]string
}

// NewLevelModel returns the documented built-in state.
func NewLevelModel() *LevelModel {
	m := &LevelModel{
		TreatAs: map[slog.Level]slog.Level{slog.OKLevel: slog.InfoLevel, slog.SuccessLevel: slog.InfoLevel, slog.FailLevel: slog.ErrorLevel},
		ErrDev: map[slog.Level]bool{slog.PanicLevel: true, slog.FatalLevel: true, slog.ErrorLevel: true,
			slog.WarnLevel: true, slog.FailLevel: true},
		Names: map[slog.Level]string{},
	}
	for k, v := range BuiltinNames {
		m.Names[k] = v
	}
	return m
}

// Register mirrors a successful slog.RegisterLevel call.
func (m *LevelModel) Register(v slog.Level, title string, treatAs *slog.Level, errDev bool) {
	m.Names[v] = title
	if treatAs != nil {
		m.TreatAs[v] = *treatAs
	}
	if errDev {
		m.ErrDev[v] = true
	}
}

// Admit is the admission rule of property C01, written from its statement.
func (m *LevelModel) Admit(loggerLevel, severity slog.Level, debugMode bool) bool {
	if loggerLevel == slog.OffLevel || severity == slog.OffLevel {
		return false
	}
	if loggerLevel == slog.AlwaysLevel || severity == slog.AlwaysLevel {
		return true
	}
	if debugMode && severity == slog.DebugLevel {
		return true
	}
	if t, ok := m.TreatAs[severity]; ok {
		severity = t
	}
	// "must not be less severe than the logger's level": smaller ordinal = more severe
	return severity <= loggerLevel
}

// Clause names which clause of the rule decides the pair (for case classification).
func (m *LevelModel) Clause(loggerLevel, severity slog.Level, debugMode bool) string {
	switch {
	case loggerLevel == slog.OffLevel:
		return "logger-off"
	case severity == slog.OffLevel:
		return "severity-off"
	case loggerLevel == slog.AlwaysLevel:
		return "logger-always"
	case severity == slog.AlwaysLevel:
		return "severity-always"
	case debugMode && severity == slog.DebugLevel:
		return "debug-mode"
	}
	if _, ok := m.TreatAs[severity]; ok {
		return "treated-as"
	}
	if severity > slog.FailLevel || severity < 0 || loggerLevel > slog.FailLevel || loggerLevel < 0 {
		return "custom-numeric"
	}
	if loggerLevel > slog.TraceLevel || severity > slog.TraceLevel {
		return "special-builtin-numeric"
	}
	return "plain-order"
}

// ErrorClass tells whether records of that severity go to the error writers.
func (m *LevelModel) ErrorClass(severity slog.Level) bool { return m.ErrDev[severity] }

// Name is the level's printed name.
func (m *LevelModel) Name(l slog.Level) (string, bool) { s, ok := m.Names[l]; return s, ok }
