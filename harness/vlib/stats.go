// Package vlib holds what all property packages share: run statistics and the
// evidence side-channel, the known-findings filter, recording / fault-injecting
// writers, record decoders (JSON, logfmt, SGR) and value generators.
package vlib

import (
	"encoding/json"
	"fmt"
	"hash/fnv"
	"os"
	"sort"
	"sync"
	"testing"
)

// TB is the part of testing.TB / *rapid.T the library needs.
type TB interface {
	Helper()
	Fatalf(format string, args ...any)
	Logf(format string, args ...any)
}

const maxSamplesPerLabel = 3
const maxHashes = 400000

type stats struct {
	mu          sync.Mutex
	Evaluations int64            `json:"evaluations"`
	Labels      map[string]int64 `json:"labels"`
	hashes      map[uint64]struct{}
	Hashes      []uint64          `json:"hashes"`
	HashesFull  bool              `json:"hashes_truncated"`
	Samples     map[string][]any  `json:"samples"`
	Known       map[string]int64  `json:"known_seen"`
	KnownEx     map[string]string `json:"known_example"`
	Exhaustive  map[string]bool   `json:"exhaustive"`
	Extra       map[string]any    `json:"extra"`
	Tests       map[string]int64  `json:"tests"`
}

var st = &stats{
	Labels:     map[string]int64{},
	hashes:     map[uint64]struct{}{},
	Samples:    map[string][]any{},
	Known:      map[string]int64{},
	KnownEx:    map[string]string{},
	Exhaustive: map[string]bool{},
	Extra:      map[string]any{},
	Tests:      map[string]int64{},
}

func hash(s string) uint64 {
	h := fnv.New64a()
	_, _ = h.Write([]byte(s))
	return h.Sum64() >> 12 // 52 bits: survives a JSON round trip through float64
}

// Case records one generated / enumerated case. test names the check function,
// nontrivKey is "" for a trivial case and otherwise a canonical description of
// what makes the case distinct (distinct_nontrivial counts distinct keys),
// labels feed the distribution histogram.
func Case(test, nontrivKey string, labels ...string) {
	st.mu.Lock()
	defer st.mu.Unlock()
	st.Evaluations++
	st.Tests[test]++
	for _, l := range labels {
		st.Labels[l]++
	}
	if nontrivKey != "" {
		st.Labels["nontrivial"]++
		if len(st.hashes) < maxHashes {
			st.hashes[hash(test+"|"+nontrivKey)] = struct{}{}
		} else {
			st.HashesFull = true
		}
	}
}

// Label bumps histogram counters without counting a case.
func Label(labels ...string) {
	st.mu.Lock()
	defer st.mu.Unlock()
	for _, l := range labels {
		st.Labels[l]++
	}
}

// Sample keeps the first few cases seen under a label, written out for the
// evidence file. v must be JSON-encodable.
func Sample(label string, v any) {
	st.mu.Lock()
	defer st.mu.Unlock()
	if len(st.Samples[label]) < maxSamplesPerLabel {
		st.Samples[label] = append(st.Samples[label], v)
	}
}

// WantSample tells whether Sample(label, …) would still keep a value (so that
// the caller can avoid building an expensive description).
func WantSample(label string) bool {
	st.mu.Lock()
	defer st.mu.Unlock()
	return len(st.Samples[label]) < maxSamplesPerLabel
}

// Exhaustive marks a finite sub-space as completely enumerated in this run.
func Exhaustive(space string) {
	st.mu.Lock()
	defer st.mu.Unlock()
	st.Exhaustive[space] = true
}

// Extra stores an additional measured number / fact for the evidence file.
func Extra(key string, v any) {
	st.mu.Lock()
	defer st.mu.Unlock()
	st.Extra[key] = v
}

// ExtraAdd adds to a numeric extra.
func ExtraAdd(key string, n int64) {
	st.mu.Lock()
	defer st.mu.Unlock()
	cur, _ := st.Extra[key].(int64)
	st.Extra[key] = cur + n
}

func writeStats() {
	path := os.Getenv("VERIF_STATS")
	if path == "" {
		return
	}
	st.mu.Lock()
	defer st.mu.Unlock()
	st.Hashes = st.Hashes[:0]
	for h := range st.hashes {
		st.Hashes = append(st.Hashes, h)
	}
	sort.Slice(st.Hashes, func(i, j int) bool { return st.Hashes[i] < st.Hashes[j] })
	b, err := json.Marshal(st)
	if err != nil {
		fmt.Fprintf(os.Stderr, "vlib: cannot encode stats: %v\n", err)
		return
	}
	if err = os.WriteFile(path, b, 0o644); err != nil {
		fmt.Fprintf(os.Stderr, "vlib: cannot write stats: %v\n", err)
	}
}

// Main is the TestMain body of every property package: load the known-findings
// file, run the tests, write the statistics side file, exit.
func Main(m *testing.M) {
	if os.Getenv("VERIF_CHILD") != "" {
		// child-process scenarios never run the test functions
		fmt.Fprintln(os.Stderr, "vlib: VERIF_CHILD set but package has no child dispatcher")
		os.Exit(3)
	}
	loadKnown()
	code := m.Run()
	writeStats()
	os.Exit(code)
}

// MainWithChild is Main for packages that re-execute their own binary: when
// VERIF_CHILD is set the child function runs instead of the tests.
func MainWithChild(m *testing.M, child func(scenario string)) {
	if sc := os.Getenv("VERIF_CHILD"); sc != "" {
		child(sc)
		os.Exit(0)
	}
	loadKnown()
	code := m.Run()
	writeStats()
	os.Exit(code)
}

// Tier is "quick" or "thorough" (VERIF_TIER, default quick).
func Tier() string {
	if os.Getenv("VERIF_TIER") == "thorough" {
		return "thorough"
	}
	return "quick"
}

// Thorough reports whether the thorough tier is running.
func Thorough() bool { return Tier() == "thorough" }
