package vlib

import (
	"context"
	"errors"
	"fmt"
	"io"
	"os"
	"reflect"
	"runtime"
	"strings"
	"sync"
	"time"

	"github.com/hedzr/is"
	"github.com/hedzr/logg/slog"
	"pgregory.net/rapid"
)

var (
	origDefault = slog.Default()
	origLevel   = slog.GetLevel()
	origFlags   = slog.GetFlags()
	homeDir, _  = os.UserHomeDir()
	cwdDir, _   = os.Getwd()
)

// ResetPathTables puts the known-path tables back to their documented initial state.
func ResetPathTables() {
	slog.ResetKnownPathMapping()
	slog.AddKnownPathMapping(homeDir, "~")
	slog.AddKnownPathMapping(cwdDir, ".")
	slog.ResetKnownPathRegexpMapping()
	slog.AddKnownPathRegexpMapping(`/Volumes/[^/]+/`, `~`)
}

// InitialLevel is the package default level observed at process start
// (Debug under go test, Warn in a production process).
func InitialLevel() slog.Level { return origLevel }

// InitialFlags are the package flags observed at process start.
func InitialFlags() slog.Flags { return origFlags }

// ProductionMode tells whether this harness binary runs as a production
// process for hedzr/logg (binary name not ending in ".test").
func ProductionMode() bool {
	if !strings.HasSuffix(os.Args[0], ".test") {
		return true
	}
	for _, a := range os.Args {
		if strings.HasPrefix(a, "-test.") {
			return false
		}
	}
	return true
}

// BaseFlags is the canonical flag set every case starts from: the package's
// standard flags, no caller info (properties that need it switch it on), and
// the no-interrupt flag so that Panic/Fatal severities never terminate (C12
// owns termination).
const BaseFlags = (slog.LstdFlags &^ (slog.Lcaller | slog.Llineno | slog.LattrsR)) | slog.LnoInterrupt // (inheritance off explicitly: what the package's standard flags contain is not stated anywhere)

// Canon puts every piece of process-wide state of the package that has a public
// setter back to a canonical value and returns a function restoring the level
// registry (hook, build tag verif). Call it at the top of every case:
//
//	defer vlib.Canon()()
func Canon() (restore func()) {
	slog.SetDefault(origDefault)
	slog.SetFlags(BaseFlags)
	slog.SetLevel(origLevel) // also sets the default logger's level; may switch debug mode on
	is.SetDebugMode(false)
	is.SetTraceMode(false)
	slog.SetLevelOutputWidth(3)
	slog.SetMessageMinimalWidth(36)
	ResetPathTables()
	restoreLevels := slog.VerifSnapshotLevels()
	return func() {
		restoreLevels()
		slog.SetDefault(origDefault)
		slog.SetFlags(BaseFlags)
		slog.SetLevel(origLevel)
		is.SetDebugMode(false)
		is.SetTraceMode(false)
		slog.SetLevelOutputWidth(3)
		slog.SetMessageMinimalWidth(36)
		ResetPathTables()
	}
}

// allFlagBits are the documented flag bits the harness toggles.
var allFlagBits = []slog.Flags{slog.Ldate, slog.Ltime, slog.Lmicroseconds, slog.LlocalTime, slog.Lattrs, slog.LattrsR, slog.Llineno,
	slog.Lcaller, slog.Lcallerpackagename, slog.Lprivacypath, slog.Lprivacypathregexp, slog.LsmartJSONMode, slog.LnoInterrupt, slog.Linterruptalways}

// SetFlagsVia makes the package flags equal to want through one of the public ways (how mod 5):
//
//	0  SetFlags(want)
//	1  ResetFlags, then AddFlags / RemoveFlags bit by bit
//	2  SetFlags(other); SaveFlagsAndMod(...) so that want holds INSIDE the (still open) scope
//	3  SetFlags(want); a SaveFlagsAndMod scope with other flags in which records are emitted; restore()
//	4  SetFlags(want); a SaveFlagsAndMod scope that "adds" flags that are set already (plus the unset ones of mask) and
//	   "removes" flags that are clear already; restore() - the doc comment's own idiom, defer SaveFlagsAndMod(f)()
//
// "other" differs from want in the bits of mask. An implementation that caches anything derived from the
// flags has to stay correct on every one of these paths. Canon() puts the flags back with SetFlags.
// FlagScopeHook, when set, is called inside every SaveFlagsAndMod scope SetFlagsVia opens (other flags are in force
// there): a check puts the very questions there that it asks again under the final flags.
var FlagScopeHook func()

func SetFlagsVia(how int, want, mask slog.Flags) {
	other := want ^ mask
	prime := func() {
		if FlagScopeHook != nil {
			FlagScopeHook()
		}
		for _, f := range []string{"color", "logfmt", "json"} {
			l := slog.New("flagscope")
			switch f {
			case "json":
				l.SetJSONMode(true)
			case "logfmt":
				l.SetColorMode(false)
			}
			l.SetWriter(io.Discard)
			l.SetErrorWriter(io.Discard)
			l.SetLevel(slog.AlwaysLevel)
			l.Info("inside another flag scope", "k", 1)
		}
	}
	switch how % 5 {
	case 4:
		slog.SetFlags(want)
		restore := slog.SaveFlagsAndMod(mask|want&(slog.LnoInterrupt|slog.Linterruptalways|slog.Lcaller|slog.Ltime), ^want&(slog.Ldate|slog.LattrsR))
		prime()
		restore()
	case 1:
		slog.ResetFlags()
		for _, f := range allFlagBits {
			if want&f != 0 {
				slog.AddFlags(f)
			} else {
				slog.RemoveFlags(f)
			}
		}
	case 2:
		slog.SetFlags(other)
		prime()
		_ = slog.SaveFlagsAndMod(want&^other, other&^want)
	case 3:
		slog.SetFlags(want)
		restore := slog.SaveFlagsAndMod(other&^want, want&^other)
		prime()
		restore()
	default:
		slog.SetFlags(want)
	}
	if got := slog.GetFlags(); got != want {
		// bits outside allFlagBits can only differ on path 1
		for _, f := range allFlagBits {
			if got&f != want&f {
				panic(fmt.Sprintf("the package flags are %#x after setting them to %#x through public way %d (see vlib.SetFlagsVia): the flag functions do not compose", int64(got), int64(want), how%5))
			}
		}
	}
}

// Disturb emits one record of a fixed menu on a scratch logger (destination io.Discard) immediately
// before the record a check is about: the printing contexts are pooled, so whatever the scratch
// record leaves behind in one (remaining message lines, key prefixes, colours, layouts, flags) is what
// the record under test starts from. kind 0 does nothing.
func Disturb(kind int) {
	if kind <= 0 {
		return
	}
	lg := slog.New("disturb").SetWriter(io.Discard).SetErrorWriter(io.Discard).SetLevel(slog.AlwaysLevel)
	ctx := context.Background()
	if kind == 8 {
		// a record with a value whose String method panics (nil pointer); the caller recovers, as a server does
		func() {
			defer func() { _ = recover() }()
			lg := slog.New("disturb-panic").SetWriter(io.Discard).SetErrorWriter(io.Discard).SetLevel(slog.AlwaysLevel).SetColorMode(false)
			lg.Info("a value panics while it is printed", "first", 1, slog.Group("req", "user", (*panickyStringer)(nil)), "zz", 2)
		}()
		return
	}
	if kind == 9 {
		// records whose caller cannot be resolved (a skip count beyond the stack) while caller info is on, in the three
		// formats: whatever the printing of the caller group leaves behind in a pooled context meets the next record
		func() {
			defer func() { _ = recover() }()
			old := slog.GetFlags()
			defer slog.SetFlags(old)
			slog.SetFlags(old | slog.Lcaller)
			far := slog.New("disturb-far").SetWriter(io.Discard).SetErrorWriter(io.Discard).SetLevel(slog.AlwaysLevel).WithSkip(100)
			far.SetWriter(io.Discard).SetErrorWriter(io.Discard)
			for _, f := range []int{0, 1, 2, 0} {
				switch f {
				case 0:
					far.SetColorMode(false)
				case 1:
					far.SetJSONMode(true)
				default:
					far.SetJSONMode(false).SetColorMode(true)
				}
				far.Info("caller beyond the stack", "id", 3, slog.Group("g", "a", "x y"))
			}
		}()
		return
	}
	if kind == 7 {
		// two garbage collections: the pools are emptied (their victim caches too), so the record under test is
		// printed by a freshly made context - and whatever only lived in a pooled object is gone
		runtime.GC()
		runtime.GC()
		return
	}
	switch kind % 6 {
	case 1: // coloured, multi-line message with a trailing line break, a group and an error
		lg.SetColorMode(true)
		lg.LogAttrs(ctx, slog.ErrorLevel, "first line\nsecond line\nthird\n", "zz", 1, slog.Group("grp", "b", 2, "a", slog.Group("in", "x", 1)), "err", errors.New("disturbing error"))
	case 2: // JSON, nested groups, the last sorted attribute is a time named time
		lg.SetJSONMode(true)
		lg.LogAttrs(ctx, slog.InfoLevel, "json disturbance", slog.Group("g", slog.Group("h", "k", "v")), "time", time.Unix(1700000000, 0).UTC())
	case 3: // logfmt, a nil value sorted last, a message that makes the buffer grow
		lg.SetColorMode(false)
		lg.LogAttrs(ctx, slog.WarnLevel, strings.Repeat("grow the buffer ", 200), "a", 1, "zzz", nil)
	case 4: // coloured, a level with a background colour, empty message
		lg.SetColorMode(true)
		lg.LogAttrs(ctx, slog.SuccessLevel, "", "k", "v")
	case 5: // coloured, own time layout and zone mode, an empty group, caller of another place
		lg.SetColorMode(true)
		lg.SetTimeFormat("2006-01-02 15:04")
		lg.SetUTCMode(false)
		lg.LogAttrs(ctx, slog.TraceLevel, "with layout\nand a second line", slog.Group("empty"), "d", time.Second)
	default: // logfmt through a child logger with attributes of its own and context keys
		lg.SetColorMode(false)
		ch := lg.New("disturb-child").SetWriter(io.Discard).SetErrorWriter(io.Discard).SetLevel(slog.AlwaysLevel)
		ch.Set("own", 1, slog.Group("og", "m", 1))
		ch.SetContextKeys("rid")
		ch.InfoContext(context.WithValue(ctx, "rid", "r-1"), "child disturbance", "k", []string{"a", "b"}) //nolint:staticcheck // string key on purpose
	}
}

var manySitesOnce sync.Once

// ManyCallSites lets the process see several thousand distinct call sites once (records handed to WriteThru
// with distinct, valid program counters): whatever the package remembers per call site is then full, as it is
// in a long-running program, for every case that follows.
func ManyCallSites() {
	manySitesOnce.Do(func() {
		old := slog.GetFlags()
		slog.SetFlags(BaseFlags | slog.Lcaller)
		lg := slog.New("manysites").SetWriter(io.Discard).SetErrorWriter(io.Discard).SetLevel(slog.AlwaysLevel).SetJSONMode(true)
		base := reflect.ValueOf(ManyCallSites).Pointer()
		for i := 0; i < 6000; i++ {
			func() {
				defer func() { _ = recover() }() // a defect here shows in the cases that follow, through their own oracles
				lg.WriteThru(context.Background(), slog.InfoLevel, time.Unix(1700000000, 0), base+uintptr(i), "another call site", nil)
			}()
		}
		slog.SetFlags(old)
	})
}

// panickyStringer reads a field in String: a nil pointer of it panics when it is printed.
type panickyStringer struct{ name string }

func (p *panickyStringer) String() string { return "user:" + p.name }

// Rare draws bits booleans and reports whether all are true: probability 2^-bits. (rapid's integer generators
// favour small magnitudes and the bounds of a range, so "IntRange(0, n) == k" is not a 1/n event.)
func Rare(t *rapid.T, label string, bits int) bool {
	all := true
	for i := 0; i < bits; i++ {
		if !rapid.Bool().Draw(t, label) {
			all = false
		}
	}
	return all
}

// GenDisturb draws the kind of scratch record for Disturb: the two garbage collections in 1 of 32 cases (they
// cost a millisecond), the panicking value in 1 of 8, otherwise none or one of the six records.
func GenDisturb() *rapid.Generator[int] {
	return rapid.Custom(func(t *rapid.T) int {
		if Rare(t, "gcBeforeTheRecord", 5) {
			return 7
		}
		if Rare(t, "panickingValueBeforeTheRecord", 3) {
			return 8
		}
		if Rare(t, "unresolvableCallerBeforeTheRecord", 3) {
			return 9
		}
		return rapid.IntRange(0, 6).Draw(t, "disturbanceRecord")
	})
}

// DisturbTwin prints the record a check is about (same severity, message and arguments) on scratch loggers of the
// OTHER formats first, destination io.Discard: whatever the package remembers about a message, a key or a value
// (an escaped form, a rendered fragment) was then computed for another format, and the pooled context last held
// exactly these strings. format is the format of the record under test ("json", "logfmt", "color").
func DisturbTwin(format string, sev slog.Level, msg string, args []any) {
	for _, f := range []string{"logfmt", "json", "color"} {
		if f == format {
			continue
		}
		func() {
			defer func() { _ = recover() }() // a defect here shows in the record that follows, through its own oracle
			lg := slog.New("twin").SetWriter(io.Discard).SetErrorWriter(io.Discard).SetLevel(slog.AlwaysLevel)
			switch f {
			case "json":
				lg.SetJSONMode(true)
			case "logfmt":
				lg.SetColorMode(false)
			default:
				lg.SetColorMode(true)
			}
			lg.LogAttrs(context.Background(), sev, msg, append([]any(nil), args...)...)
		}()
	}
}

// DisturbDupKeys prints, on a scratch logger of the given format, a record whose argument list repeats a key (the
// documented way to override an attribute) among loose key/value pairs: whatever the package recycles of such a
// list afterwards has seen the de-duplication.
func DisturbDupKeys(format string) {
	lg := slog.New("dupkeys").SetWriter(io.Discard).SetErrorWriter(io.Discard).SetLevel(slog.AlwaysLevel)
	switch format {
	case "json":
		lg.SetJSONMode(true)
	case "logfmt":
		lg.SetColorMode(false)
	default:
		lg.SetColorMode(true)
	}
	func() {
		defer func() { _ = recover() }()
		lg.Info("a key given twice", "a", 1, "b", 2, "c", 3, "c", 4)
		lg.Set("own", 1)
		lg.Info("a call-site pair overriding a logger attribute", "own", 2, "z", 3)
	}()
}
