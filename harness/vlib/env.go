package vlib

import (
	"os"
	"strings"

	"github.com/hedzr/is"
	"github.com/hedzr/logg/slog"
)

var (
	origDefault = slog.Default()
	origLevel   = slog.GetLevel()
	origFlags   = slog.GetFlags()
	homeDir, _  = os.UserHomeDir()
	cwdDir, _   = os.Getwd()
)

// ResetPathTables puts the known-path tables back to their documented initial state.
func ResetPathTables() {
	slog.ResetKnownPathMapping()
	slog.AddKnownPathMapping(homeDir, "~")
	slog.AddKnownPathMapping(cwdDir, ".")
	slog.ResetKnownPathRegexpMapping()
	slog.AddKnownPathRegexpMapping(`/Volumes/[^/]+/`, `~`)
}

// InitialLevel is the package default level observed at process start
// (Debug under go test, Warn in a production process).
func InitialLevel() slog.Level { return origLevel }

// InitialFlags are the package flags observed at process start.
func InitialFlags() slog.Flags { return origFlags }

// ProductionMode tells whether this harness binary runs as a production
// process for hedzr/logg (binary name not ending in ".test").
func ProductionMode() bool {
	if !strings.HasSuffix(os.Args[0], ".test") {
		return true
	}
	for _, a := range os.Args {
		if strings.HasPrefix(a, "-test.") {
			return false
		}
	}
	return true
}

// BaseFlags is the canonical flag set every case starts from: the package's
// standard flags, no caller info (properties that need it switch it on), and
// the no-interrupt flag so that Panic/Fatal severities never terminate (C12
// owns termination).
const BaseFlags = (slog.LstdFlags &^ (slog.Lcaller | slog.Llineno)) | slog.LnoInterrupt

// Canon puts every piece of process-wide state of the package that has a public
// setter back to a canonical value and returns a function restoring the level
// registry (hook, build tag verif). Call it at the top of every case:
//
//	defer vlib.Canon()()
func Canon() (restore func()) {
	slog.SetDefault(origDefault)
	slog.SetFlags(BaseFlags)
	slog.SetLevel(origLevel) // also sets the default logger's level; may switch debug mode on
	is.SetDebugMode(false)
	is.SetTraceMode(false)
	slog.SetLevelOutputWidth(3)
	slog.SetMessageMinimalWidth(36)
	ResetPathTables()
	restoreLevels := slog.VerifSnapshotLevels()
	return func() {
		restoreLevels()
		slog.SetDefault(origDefault)
		slog.SetFlags(BaseFlags)
		slog.SetLevel(origLevel)
		is.SetDebugMode(false)
		is.SetTraceMode(false)
		slog.SetLevelOutputWidth(3)
		slog.SetMessageMinimalWidth(36)
		ResetPathTables()
	}
}
