package vlib

import (
	"encoding/json"
	"fmt"
	"strings"
	"time"
	"unicode/utf8"
)

// ExpRecord is what the harness expects a record to say.
type ExpRecord struct {
	LoggerName string
	LevelName  string
	Msg        string
	Attrs      []ExpAttr // in source order; normalized (merged, sorted) by the checker
	Caller     bool
	TimeLayout string     // layout in force
	Time       *time.Time // explicit instant, already converted to the zone in force (nil: only parse)
	// SkipContent: only framing / well-formedness is judged (e.g. keys that are not valid UTF-8)
	SkipContent bool
	// QuotingNotJudged: whether string-like values are quoted is C05's clause; checks of other properties that read logfmt
	// records set this and compare the parsed values only
	QuotingNotJudged bool
}

// Problem is a discrepancy with a signature (see known_findings.json).
type Problem struct {
	Sig string
	Msg string
}

func (p *Problem) Error() string { return p.Msg }

func problem(sig, format string, args ...any) *Problem {
	return &Problem{Sig: sig, Msg: fmt.Sprintf(format, args...)}
}

var reservedJSON = map[string]bool{"time": true, "logger": true, "level": true, "msg": true, "caller": true}

// CheckJSONRecord is the C04 oracle for one payload.
func CheckJSONRecord(payload []byte, exp ExpRecord) *Problem {
	o, err := DecodeJSONRecord(payload)
	if err != nil {
		return problem("C04/framing", "not one line of valid JSON: %v; payload %s", err, Short(string(payload)))
	}
	if exp.SkipContent {
		return nil
	}
	str := func(k string) (string, *Problem) {
		v, ok := o.Get(k)
		if !ok {
			return "", problem("C04/members", "member %q is missing; payload %s", k, Short(string(payload)))
		}
		s, ok := v.(string)
		if !ok {
			return "", problem("C04/members", "member %q is %T, want a string; payload %s", k, v, Short(string(payload)))
		}
		return s, nil
	}
	ts, p := str("time")
	if p != nil {
		return p
	}
	if exp.TimeLayout != "" {
		if _, err := time.Parse(exp.TimeLayout, ts); err != nil {
			return problem("C04/time", "time %q does not parse with the layout in force %q: %v", ts, exp.TimeLayout, err)
		}
		if exp.Time != nil && ts != exp.Time.Format(exp.TimeLayout) {
			return problem("C04/time", "time %q, want %q", ts, exp.Time.Format(exp.TimeLayout))
		}
	}
	if exp.LoggerName != "" {
		n, p := str("logger")
		if p != nil {
			return p
		}
		if n != exp.LoggerName {
			return problem("C04/members", "logger %q, want %q", n, exp.LoggerName)
		}
	} else if _, has := o.Get("logger"); has {
		return problem("C04/members", "unnamed logger but the record has a logger member; payload %s", Short(string(payload)))
	}
	lv, p := str("level")
	if p != nil {
		return p
	}
	if lv != exp.LevelName {
		return problem("C04/members", "level %q, want %q", lv, exp.LevelName)
	}
	msg, p := str("msg")
	if p != nil {
		return p
	}
	if utf8.ValidString(exp.Msg) && msg != exp.Msg {
		return problem("C04/msg", "msg %q, want %q", msg, exp.Msg)
	}
	if c, has := o.Get("caller"); exp.Caller {
		co, ok := c.(*JObj)
		if !has || !ok {
			return problem("C04/caller", "caller member missing or not an object; payload %s", Short(string(payload)))
		}
		if _, ok := co.Vals["file"].(string); !ok {
			return problem("C04/caller", "caller.file is not a string")
		}
		if _, ok := co.Vals["line"].(json.Number); !ok {
			return problem("C04/caller", "caller.line is not a number")
		}
		if _, ok := co.Vals["function"].(string); !ok {
			return problem("C04/caller", "caller.function is not a string")
		}
	} else if has {
		return problem("C04/caller", "caller member present although caller info is off")
	}
	if err := MatchJSONAttrs(o, Normalize(exp.Attrs), reservedJSON, ""); err != nil {
		return problem("C04/attrs", "%v; logged [%s]; payload %s", err, Describe(exp.Attrs), Short(string(payload)))
	}
	return nil // (no member order is asserted: a JSON object has none, and the statement names none)
}

// CheckLogfmtRecord is the C05 oracle for one payload. errorDump=true accepts (and
// cuts off) the multi-line error dump appended under go test / a debugger.
func CheckLogfmtRecord(payload []byte, exp ExpRecord, errorDump bool) *Problem {
	line := payload
	if errorDump {
		if i := strings.IndexByte(string(payload), '\n'); i >= 0 && i < len(payload)-1 {
			line = payload[:i+1]
		}
	}
	pairs, err := ParseLogfmtRecord(line)
	if err != nil {
		return problem("C05/framing", "not one line of key=value pairs: %v; payload %s", err, Short(string(payload)))
	}
	if exp.SkipContent {
		return nil
	}
	head := []string{"time", "level", "msg"}
	if exp.LoggerName != "" {
		head = []string{"time", "logger", "level", "msg"}
	}
	if len(pairs) < len(head) {
		return problem("C05/members", "record has only %d pairs; payload %s", len(pairs), Short(string(payload)))
	}
	if exp.QuotingNotJudged {
		// the order "time, logger, level, msg" is C05's clause as well: the other checks take the leading members in
		// whatever order they stand
		lead := map[string]LPair{}
		for _, p := range pairs[:len(head)] {
			lead[p.Key] = p
		}
		if len(lead) == len(head) {
			sorted, all := make([]LPair, 0, len(head)), true
			for _, k := range head {
				p, ok := lead[k]
				all = all && ok
				sorted = append(sorted, p)
			}
			if all {
				pairs = append(sorted, pairs[len(head):]...)
			}
		}
	}
	for i, k := range head {
		if pairs[i].Key != k {
			return problem("C05/members", "pair #%d has key %q, want %q; payload %s", i, pairs[i].Key, k, Short(string(payload)))
		}
		// (the timestamp is not a "string-like value": it may stand bare when it tokenises as one word)
		if pairs[i].Kind != "quoted" && !exp.QuotingNotJudged && k != "time" {
			return problem("C05/members", "field %q must be quoted, got %q", k, pairs[i].Raw)
		}
	}
	idx := 0
	ts := pairs[idx].Str
	idx++
	if exp.TimeLayout != "" {
		if _, err := time.Parse(exp.TimeLayout, ts); err != nil {
			return problem("C05/time", "time %q does not parse with the layout in force %q: %v", ts, exp.TimeLayout, err)
		}
		if exp.Time != nil && ts != exp.Time.Format(exp.TimeLayout) {
			return problem("C05/time", "time %q, want %q", ts, exp.Time.Format(exp.TimeLayout))
		}
	}
	if exp.LoggerName != "" {
		if pairs[idx].Str != exp.LoggerName {
			return problem("C05/members", "logger %q, want %q", pairs[idx].Str, exp.LoggerName)
		}
		idx++
	}
	if pairs[idx].Str != exp.LevelName {
		return problem("C05/members", "level %q, want %q", pairs[idx].Str, exp.LevelName)
	}
	idx++
	if pairs[idx].Str != exp.Msg {
		return problem("C05/msg", "msg %q, want %q", pairs[idx].Str, exp.Msg)
	}
	idx++
	rest := pairs[idx:]
	if exp.Caller {
		// the three caller pairs, wherever they stand after the message and in whatever order
		var keep []LPair
		seen := map[string]LPair{}
		inBlock := false
		for _, p := range rest {
			if _, dup := seen[p.Key]; !dup && (p.Key == "caller.file" || p.Key == "caller.line" || p.Key == "caller.function") {
				seen[p.Key] = p
				inBlock = true
				continue
			}
			if inBlock && strings.HasPrefix(p.Key, "caller.") {
				continue // a further member of the caller group, right behind the stated three: not forbidden by any statement
			}
			inBlock = false
			keep = append(keep, p)
		}
		if len(seen) != 3 {
			return problem("C05/caller", "caller pairs missing (found %d of caller.file/line/function); payload %s", len(seen), Short(string(payload)))
		}
		if !exp.QuotingNotJudged && (seen["caller.file"].Kind != "quoted" || seen["caller.function"].Kind != "quoted" || seen["caller.line"].Kind != "bare") {
			return problem("C05/caller", "caller pairs have wrong shapes: %q %q %q", seen["caller.file"].Raw, seen["caller.line"].Raw, seen["caller.function"].Raw)
		}
		rest = keep
	}
	if err := MatchLogfmtAttrs(rest, Normalize(exp.Attrs), !exp.QuotingNotJudged); err != nil {
		return problem("C05/attrs", "%v; logged [%s]; payload %s", err, Describe(exp.Attrs), Short(string(payload)))
	}
	return nil
}
