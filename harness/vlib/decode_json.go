package vlib

import (
	"bytes"
	"encoding/json"
	"fmt"
	"io"
	"unicode/utf8"
)

// JObj is a decoded JSON object that keeps member order.
type JObj struct {
	Keys []string
	Vals map[string]any // string | json.Number | bool | nil | []any | *JObj
}

func (o *JObj) Get(k string) (any, bool) { v, ok := o.Vals[k]; return v, ok }

// DecodeJSONRecord checks that payload is exactly one line holding exactly one
// syntactically valid JSON object (valid UTF-8, no duplicate member names at any
// depth) and returns it. It does not use any code of the package under test.
func DecodeJSONRecord(payload []byte) (*JObj, error) {
	if len(payload) == 0 || payload[len(payload)-1] != '\n' {
		return nil, fmt.Errorf("record does not end with a newline")
	}
	body := payload[:len(payload)-1]
	if i := bytes.IndexAny(body, "\n\r"); i >= 0 {
		return nil, fmt.Errorf("record spans more than one line (byte %#x at offset %d)", body[i], i)
	}
	if !utf8.Valid(body) {
		return nil, fmt.Errorf("record is not valid UTF-8")
	}
	dec := json.NewDecoder(bytes.NewReader(body))
	dec.UseNumber()
	v, err := decodeValue(dec)
	if err != nil {
		return nil, fmt.Errorf("invalid JSON: %v", err)
	}
	if _, err = dec.Token(); err != io.EOF {
		return nil, fmt.Errorf("data after the JSON value (offset %d): %v", dec.InputOffset(), err)
	}
	o, ok := v.(*JObj)
	if !ok {
		return nil, fmt.Errorf("top-level JSON value is not an object")
	}
	return o, nil
}

func decodeValue(dec *json.Decoder) (any, error) {
	tok, err := dec.Token()
	if err != nil {
		return nil, err
	}
	switch t := tok.(type) {
	case json.Delim:
		switch t {
		case '{':
			o := &JObj{Vals: map[string]any{}}
			for dec.More() {
				kt, err := dec.Token()
				if err != nil {
					return nil, err
				}
				k, ok := kt.(string)
				if !ok {
					return nil, fmt.Errorf("object key is not a string: %v", kt)
				}
				if _, dup := o.Vals[k]; dup {
					return nil, fmt.Errorf("duplicate member name %q", k)
				}
				v, err := decodeValue(dec)
				if err != nil {
					return nil, err
				}
				o.Keys = append(o.Keys, k)
				o.Vals[k] = v
			}
			if _, err = dec.Token(); err != nil { // '}'
				return nil, err
			}
			return o, nil
		case '[':
			arr := []any{}
			for dec.More() {
				v, err := decodeValue(dec)
				if err != nil {
					return nil, err
				}
				arr = append(arr, v)
			}
			if _, err = dec.Token(); err != nil {
				return nil, err
			}
			return arr, nil
		}
		return nil, fmt.Errorf("unexpected delimiter %v", t)
	default:
		return tok, nil
	}
}
