package vlib

import (
	"fmt"
	"runtime"

	"github.com/hedzr/logg/slog"
)

// A printing context made afresh starts with a buffer of InitialBufferCap bytes (slog/pc.go, newPrintCtx); a
// record longer than that makes the buffer grow while it is written. Pooled contexts keep their grown buffers,
// so after the first long record of a process no record grows a buffer any more - until a garbage collection
// empties the pools. Where in the record the growth happens depends on everything printed before that place.
const InitialBufferCap = 1024

// FreshContexts empties the package's pools (two garbage collections: the second drops the victim caches), so
// the next record is printed by a context that is made for it.
func FreshContexts() {
	runtime.GC()
	runtime.GC()
}

// Consumer is a user marshaller that uses the read half of the encoder's buffer interface before it writes:
// it consumes N bytes (Next) and one more (ReadByte) of what the record holds so far.
type Consumer struct{ N int }

func (c Consumer) MarshalSlogObject(enc *slog.PrintCtx) error {
	_ = enc.Next(c.N)
	_, _ = enc.ReadByte()
	_, err := enc.WriteString("consumed")
	return err
}

// GrowthPads are k small attributes b000=1 … and one more, b999, whose value has d digits (none for d = 0).
func GrowthPads(k, d int) []slog.Attr {
	out := make([]slog.Attr, 0, k+1)
	for i := 0; i < k; i++ {
		out = append(out, slog.NewAttr(fmt.Sprintf("b%03d", i), 1))
	}
	if d > 0 {
		v := 1
		for i := 1; i < d; i++ {
			v = v*10 + 1
		}
		out = append(out, slog.NewAttr("b999", v))
	}
	return out
}

// GrowthSweep lists the paddings (k, d) that put byte InitialBufferCap of the record on every byte of what the
// record holds besides the padding: l0 is the record's length without padding, per the bytes one b000=1 adds.
func GrowthSweep(l0, per int) (out [][2]int) {
	if per < 1 {
		per = 1
	}
	kmin := (InitialBufferCap-l0)/per - 2
	if kmin < 0 {
		kmin = 0
	}
	kmax := InitialBufferCap/per + 1
	for k := kmin; k <= kmax; k++ {
		for d := 0; d <= per && d <= 18; d++ {
			out = append(out, [2]int{k, d})
		}
	}
	return out
}
