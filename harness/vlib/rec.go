package vlib

import (
	"errors"
	"fmt"
	"sync"

	"github.com/hedzr/logg/slog"
)

// Event is one observation made by a recording writer.
type Event struct {
	W       int    // writer id
	Kind    string // "write" | "setlevel" | "close"
	Payload []byte // copy of the Write payload
	Level   slog.Level
	Err     error // error returned to the logger (fault injection)
	N       int
}

func (e Event) String() string {
	switch e.Kind {
	case "write":
		s := string(e.Payload)
		if len(s) > 200 {
			s = s[:200] + "…"
		}
		return fmt.Sprintf("w%d.Write(%q)=%d,%v", e.W, s, e.N, e.Err)
	case "setlevel":
		return fmt.Sprintf("w%d.SetLevel(%v)", e.W, int(e.Level))
	}
	return fmt.Sprintf("w%d.%s", e.W, e.Kind)
}

// EventLog is the event log shared by all recording writers of one case, so the
// global order of events is preserved.
type EventLog struct {
	mu     sync.Mutex
	Events []Event
	// Fault, when set, decides the result of a Write: it is called with the writer id,
	// the number of earlier Write attempts on that writer, and the payload.
	Fault func(w, attempt int, payload []byte) (n int, err error)
	// Hook runs inside every Write (outside the lock), e.g. to yield the processor.
	Hook     func(w int)
	attempts map[int]int
	// Cascade guard: after Limit Write attempts in total the log stops failing writes
	// and sets Tripped (turns unbounded recursion into a verdict instead of a stack overflow).
	Limit   int
	Tripped bool
}

func NewEventLog() *EventLog { return &EventLog{attempts: map[int]int{}} }

func (l *EventLog) Reset() {
	l.mu.Lock()
	l.Events = nil
	l.attempts = map[int]int{}
	l.Tripped = false
	l.mu.Unlock()
}

// Snapshot returns a copy of the events recorded so far.
func (l *EventLog) Snapshot() []Event {
	l.mu.Lock()
	defer l.mu.Unlock()
	return append([]Event(nil), l.Events...)
}

// Writes returns the write events only.
func (l *EventLog) Writes() []Event {
	var out []Event
	for _, e := range l.Snapshot() {
		if e.Kind == "write" {
			out = append(out, e)
		}
	}
	return out
}

func (l *EventLog) Len() int {
	l.mu.Lock()
	defer l.mu.Unlock()
	return len(l.Events)
}

type recBase struct {
	id  int
	log *EventLog
}

func (r *recBase) ID() int { return r.id }

func (r *recBase) write(p []byte) (int, error) {
	l := r.log
	if l.Hook != nil {
		l.Hook(r.id)
	}
	l.mu.Lock()
	attempt := l.attempts[r.id]
	l.attempts[r.id] = attempt + 1
	total := 0
	for _, n := range l.attempts {
		total += n
	}
	n, err := len(p), error(nil)
	if l.Limit > 0 && total > l.Limit {
		l.Tripped = true
	} else if l.Fault != nil {
		n, err = l.Fault(r.id, attempt, p)
	}
	l.Events = append(l.Events, Event{W: r.id, Kind: "write", Payload: append([]byte(nil), p...), Err: err, N: n})
	l.mu.Unlock()
	return n, err
}

func (r *recBase) setLevel(lvl slog.Level) {
	r.log.mu.Lock()
	r.log.Events = append(r.log.Events, Event{W: r.id, Kind: "setlevel", Level: lvl})
	r.log.mu.Unlock()
}

func (r *recBase) close() {
	r.log.mu.Lock()
	r.log.Events = append(r.log.Events, Event{W: r.id, Kind: "close"})
	r.log.mu.Unlock()
}

// Writer is what the harness knows about any of its recording writers.
type Writer interface {
	Write(p []byte) (int, error)
	ID() int
	KindName() string
	Settable() bool
}

// PlainRec implements io.Writer only (the logger stores it behind its own wrapper).
type PlainRec struct{ recBase }

func (r *PlainRec) Write(p []byte) (int, error) { return r.write(p) }
func (r *PlainRec) KindName() string            { return "plain" }
func (r *PlainRec) Settable() bool              { return false }

// CloserRec implements io.Writer and io.Closer, i.e. slog.LogWriter (stored as is).
type CloserRec struct{ recBase }

func (r *CloserRec) Write(p []byte) (int, error) { return r.write(p) }
func (r *CloserRec) Close() error                { r.close(); return nil }
func (r *CloserRec) KindName() string            { return "closer" }
func (r *CloserRec) Settable() bool              { return false }

// LevelRec implements io.Writer and slog.LevelSettable.
type LevelRec struct{ recBase }

func (r *LevelRec) Write(p []byte) (int, error) { return r.write(p) }
func (r *LevelRec) SetLevel(l slog.Level)       { r.setLevel(l) }
func (r *LevelRec) KindName() string            { return "levelsettable" }
func (r *LevelRec) Settable() bool              { return true }

// LevelCloserRec implements slog.LogWriter and slog.LevelSettable.
type LevelCloserRec struct{ recBase }

func (r *LevelCloserRec) Write(p []byte) (int, error) { return r.write(p) }
func (r *LevelCloserRec) Close() error                { r.close(); return nil }
func (r *LevelCloserRec) SetLevel(l slog.Level)       { r.setLevel(l) }
func (r *LevelCloserRec) KindName() string            { return "closer+levelsettable" }
func (r *LevelCloserRec) Settable() bool              { return true }

var (
	_ slog.LogWriter     = (*CloserRec)(nil)
	_ slog.LevelSettable = (*LevelRec)(nil)
	_ slog.LogWriter     = (*LevelCloserRec)(nil)
	_ slog.LevelSettable = (*LevelCloserRec)(nil)
)

// NewRec makes a recording writer of the given kind (0 plain, 1 closer, 2 level-settable, 3 both).
func NewRec(log *EventLog, id, kind int) Writer {
	b := recBase{id: id, log: log}
	switch kind % 4 {
	case 1:
		return &CloserRec{b}
	case 2:
		return &LevelRec{b}
	case 3:
		return &LevelCloserRec{b}
	}
	return &PlainRec{b}
}

// ErrInjected is the error returned by failing writers.
var ErrInjected = errors.New("injected write failure")

// ValueWriter is a writer of a VALUE type (a small struct passed by value, like an adapter type or a func-to-writer
// shim in user code): two copies made from the same recorder are equal, none of them is a pointer.
type ValueWriter struct{ W Writer }

func (v ValueWriter) Write(p []byte) (int, error) { return v.W.Write(p) }
