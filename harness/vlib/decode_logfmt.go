package vlib

import (
	"bytes"
	"fmt"
	"strconv"
)

// LPair is one key=value pair of a logfmt line.
type LPair struct {
	Key   string
	Raw   string  // the value's text as printed
	Kind  string  // quoted | list | bare
	Str   string  // unquoted text (quoted), Raw otherwise
	Elems []LElem // list elements
}

// LElem is one element of a [a,b,c] list value.
type LElem struct {
	Raw    string
	Quoted bool
	Str    string
}

func isCtl(b byte) bool { return b < 0x20 || b == 0x7f }

// scanQuoted returns the index just after the closing quote of the Go-style
// double-quoted string starting at s[0]=='"', or -1.
func scanQuoted(s []byte) int {
	for i := 1; i < len(s); i++ {
		switch s[i] {
		case '\\':
			i++
		case '"':
			return i + 1
		case '\n', '\r':
			return -1
		}
	}
	return -1
}

// ParseLogfmtRecord is the independent logfmt tokenizer: the payload must be
// exactly one line of key=value pairs separated by one or more spaces.
// value = Go double-quoted string | [list] | bare token (no space, quote, control).
func ParseLogfmtRecord(payload []byte) ([]LPair, error) {
	if len(payload) == 0 || payload[len(payload)-1] != '\n' {
		return nil, fmt.Errorf("record does not end with a newline")
	}
	s := payload[:len(payload)-1]
	if i := bytes.IndexAny(s, "\n\r"); i >= 0 {
		return nil, fmt.Errorf("record spans more than one line (byte %#x at offset %d)", s[i], i)
	}
	var pairs []LPair
	i := 0
	for {
		for i < len(s) && s[i] == ' ' {
			i++
		}
		if i >= len(s) {
			break
		}
		// key
		k0 := i
		for i < len(s) && s[i] != '=' && s[i] != ' ' && s[i] != '"' && !isCtl(s[i]) {
			i++
		}
		if i >= len(s) || s[i] != '=' || i == k0 {
			return nil, fmt.Errorf("offset %d: expected key=value, found %q", k0, clip(s[k0:]))
		}
		p := LPair{Key: string(s[k0:i])}
		i++ // '='
		if i >= len(s) || s[i] == ' ' {
			return nil, fmt.Errorf("offset %d: key %q has an empty value", i, p.Key)
		}
		v0 := i
		switch s[i] {
		case '"':
			n := scanQuoted(s[i:])
			if n < 0 {
				return nil, fmt.Errorf("offset %d: unterminated quoted value for key %q: %q", i, p.Key, clip(s[i:]))
			}
			i += n
			p.Kind, p.Raw = "quoted", string(s[v0:i])
			u, err := strconv.Unquote(p.Raw)
			if err != nil {
				return nil, fmt.Errorf("offset %d: value of key %q is not a valid quoted string: %q", v0, p.Key, clip(s[v0:i]))
			}
			p.Str = u
		case '[':
			p.Kind = "list"
			i++
			for {
				if i >= len(s) {
					return nil, fmt.Errorf("offset %d: unterminated list for key %q", v0, p.Key)
				}
				if s[i] == ']' {
					i++
					break
				}
				if s[i] == ',' {
					i++
					continue
				}
				e0 := i
				if s[i] == '"' {
					n := scanQuoted(s[i:])
					if n < 0 {
						return nil, fmt.Errorf("offset %d: unterminated quoted list element for key %q", i, p.Key)
					}
					i += n
					raw := string(s[e0:i])
					u, err := strconv.Unquote(raw)
					if err != nil {
						return nil, fmt.Errorf("offset %d: list element of key %q is not a valid quoted string: %q", e0, p.Key, clip(s[e0:i]))
					}
					p.Elems = append(p.Elems, LElem{Raw: raw, Quoted: true, Str: u})
				} else {
					for i < len(s) && s[i] != ',' && s[i] != ']' && s[i] != ' ' && s[i] != '"' && !isCtl(s[i]) {
						i++
					}
					if i == e0 {
						return nil, fmt.Errorf("offset %d: bad list element for key %q: %q", e0, p.Key, clip(s[e0:]))
					}
					p.Elems = append(p.Elems, LElem{Raw: string(s[e0:i]), Str: string(s[e0:i])})
				}
			}
			p.Raw = string(s[v0:i])
			p.Str = p.Raw
		default:
			for i < len(s) && s[i] != ' ' && s[i] != '"' && s[i] != '=' && !isCtl(s[i]) {
				i++
			}
			p.Kind, p.Raw = "bare", string(s[v0:i])
			p.Str = p.Raw
		}
		if i < len(s) && s[i] != ' ' {
			return nil, fmt.Errorf("offset %d: value of key %q is followed by %q instead of a space", i, p.Key, clip(s[i:]))
		}
		pairs = append(pairs, p)
	}
	return pairs, nil
}

func clip(b []byte) string {
	if len(b) > 60 {
		return string(b[:60]) + "…"
	}
	return string(b)
}
