package vlib

import (
	"encoding/json"
	"fmt"
	"math"
	"reflect"
	"sort"
	"strconv"
	"strings"
	"time"
	"unicode/utf8"

	"github.com/hedzr/logg/slog"
	"pgregory.net/rapid"
)

// ExpAttr is one attribute as the harness intends it: a key with a value, or a
// group with members. Lists of ExpAttr are the oracle-side picture of what was logged.
type ExpAttr struct {
	Key     string
	Val     Value
	IsGroup bool
	Group   []ExpAttr
}

func (a ExpAttr) String() string {
	if a.IsGroup {
		parts := make([]string, len(a.Group))
		for i, m := range a.Group {
			parts[i] = m.String()
		}
		return fmt.Sprintf("%q:{%s}", a.Key, strings.Join(parts, ", "))
	}
	return fmt.Sprintf("%q:(%s)%s", a.Key, a.Val.Kind, Short(a.Val.V))
}

// Describe renders a list for failure messages and samples.
func Describe(as []ExpAttr) string {
	parts := make([]string, len(as))
	for i, a := range as {
		parts[i] = a.String()
	}
	s := strings.Join(parts, ", ")
	if len(s) > 1500 {
		s = s[:1500] + "…"
	}
	return s
}

// Normalize is the reference merge of property C07 applied to an ordered list:
// the last occurrence of a key wins, the result is in ascending key order, and
// the same holds inside every group.
func Normalize(as []ExpAttr) []ExpAttr {
	last := map[string]int{}
	for i, a := range as {
		last[a.Key] = i
	}
	var out []ExpAttr
	for i, a := range as {
		if last[a.Key] != i {
			continue
		}
		if a.IsGroup {
			a.Group = Normalize(a.Group)
		}
		out = append(out, a)
	}
	sort.SliceStable(out, func(i, j int) bool { return out[i].Key < out[j].Key })
	return out
}

// Flatten turns a normalized list into dotted-key leaves (logfmt / colored view).
// Empty groups vanish.
func Flatten(as []ExpAttr, prefix string) []ExpAttr {
	var out []ExpAttr
	for _, a := range as {
		k := a.Key
		if prefix != "" {
			k = prefix + "." + a.Key
		}
		if a.IsGroup {
			out = append(out, Flatten(a.Group, k)...)
			continue
		}
		out = append(out, ExpAttr{Key: k, Val: a.Val})
	}
	return out
}

// ---------- generation ----------

// AttrGen configures GenAttrs.
type AttrGen struct {
	Keys       *rapid.Generator[string]
	Vals       *rapid.Generator[Value]
	MaxDepth   int
	MaxLen     int
	UniqueKeys bool // keys unique within each level (so that C07's dedupe does not interfere)
	NoGroups   bool
}

// GenAttrs draws an attribute list.
func GenAttrs(t *rapid.T, g AttrGen, depth int) []ExpAttr {
	n := rapid.IntRange(0, g.MaxLen).Draw(t, "nattrs")
	var out []ExpAttr
	seen := map[string]bool{}
	for i := 0; i < n; i++ {
		k := g.Keys.Draw(t, "key")
		if g.UniqueKeys {
			// keys that differ only in bytes that are not valid UTF-8 necessarily collide in
			// JSON (each such byte becomes U+FFFD): treat them as equal
			ck := strings.ToValidUTF8(k, "\uFFFD")
			if !utf8.ValidString(k) {
				ck = sanitizeUTF8(k)
			}
			if seen[ck] {
				continue
			}
			seen[ck] = true
		}
		if !g.NoGroups && depth < g.MaxDepth && rapid.IntRange(0, 4).Draw(t, "isGroup") == 0 {
			out = append(out, ExpAttr{Key: k, IsGroup: true, Group: GenAttrs(t, g, depth+1)})
			continue
		}
		out = append(out, ExpAttr{Key: k, Val: g.Vals.Draw(t, "val")})
	}
	return out
}

func sanitizeUTF8(s string) string {
	var sb strings.Builder
	for i := 0; i < len(s); {
		r, n := utf8.DecodeRuneInString(s[i:])
		if r == utf8.RuneError && n == 1 {
			sb.WriteRune(utf8.RuneError)
		} else {
			sb.WriteString(s[i : i+n])
		}
		i += n
	}
	return sb.String()
}

// BuildArgs turns an attribute list into a free-form argument list, choosing
// among the equivalent public ways of passing each attribute.
func BuildArgs(t *rapid.T, as []ExpAttr) []any {
	var args []any
	for _, a := range as {
		if a.IsGroup {
			inner := BuildArgs(t, a.Group)
			switch rapid.IntRange(0, 2).Draw(t, "groupCtor") {
			case 0:
				args = append(args, slog.Group(a.Key, inner...))
			case 1:
				args = append(args, slog.NewGroupedAttrEasy(a.Key, inner...))
			default:
				args = append(args, slog.NewGroupedAttr(a.Key, BuildAttrs(t, a.Group)...))
			}
			continue
		}
		switch rapid.IntRange(0, 3).Draw(t, "attrForm") {
		case 0:
			if a.Key != "" { // an empty string in key position is not a key/value pair
				args = append(args, a.Key, a.Val.V)
				continue
			}
			args = append(args, slog.NewAttr(a.Key, a.Val.V))
		case 1:
			args = append(args, slog.NewAttr(a.Key, a.Val.V))
		case 2:
			args = append(args, slog.Any(a.Key, a.Val.V))
		default:
			args = append(args, typedAttr(a))
		}
	}
	return args
}

// BuildAttrs turns an attribute list into []slog.Attr.
func BuildAttrs(t *rapid.T, as []ExpAttr) []slog.Attr {
	var out []slog.Attr
	for _, a := range as {
		if a.IsGroup {
			out = append(out, slog.NewGroupedAttr(a.Key, BuildAttrs(t, a.Group)...))
			continue
		}
		out = append(out, typedAttr(a))
	}
	return out
}

func typedAttr(a ExpAttr) slog.Attr {
	switch v := a.Val.V.(type) {
	case string:
		return slog.String(a.Key, v)
	case bool:
		return slog.Bool(a.Key, v)
	case int:
		return slog.Int(a.Key, v)
	case int8:
		return slog.Int8(a.Key, v)
	case int16:
		return slog.Int16(a.Key, v)
	case int32:
		return slog.Int32(a.Key, v)
	case int64:
		return slog.Int64(a.Key, v)
	case uint:
		return slog.Uint(a.Key, v)
	case uint8:
		return slog.Uint8(a.Key, v)
	case uint16:
		return slog.Uint16(a.Key, v)
	case uint32:
		return slog.Uint32(a.Key, v)
	case uint64:
		return slog.Uint64(a.Key, v)
	case float32:
		return slog.Float32(a.Key, v)
	case float64:
		return slog.Float64(a.Key, v)
	case complex64:
		return slog.Complex64(a.Key, v)
	case complex128:
		return slog.Complex128(a.Key, v)
	case time.Time:
		return slog.Time(a.Key, v)
	case time.Duration:
		return slog.Duration(a.Key, v)
	}
	return slog.Any(a.Key, a.Val.V)
}

// ---------- comparison by meaning ----------

func sameFloat(a, b float64) bool {
	if math.IsNaN(a) || math.IsNaN(b) {
		return math.IsNaN(a) && math.IsNaN(b)
	}
	return a == b
}

func numText(got any) (string, bool) {
	switch g := got.(type) {
	case json.Number:
		return g.String(), true
	case string:
		return g, true
	}
	return "", false
}

func matchInt(text string, want int64) error {
	n, err := strconv.ParseInt(text, 10, 64)
	if err != nil || n != want {
		return fmt.Errorf("got %q, want integer %d", text, want)
	}
	return nil
}

func matchUint(text string, want uint64) error {
	n, err := strconv.ParseUint(text, 10, 64)
	if err != nil || n != want {
		return fmt.Errorf("got %q, want unsigned integer %d", text, want)
	}
	return nil
}

func matchFloat(text string, want float64) error {
	f, err := strconv.ParseFloat(text, 64)
	if err != nil && !(math.IsInf(f, 0)) {
		return fmt.Errorf("got %q, want float %v", text, want)
	}
	if !sameFloat(f, want) {
		return fmt.Errorf("got %q (=%v), want float %v", text, f, want)
	}
	return nil
}

func matchComplex(text string, want complex128) error {
	c, err := strconv.ParseComplex(text, 128)
	if err != nil && !(math.IsInf(real(c), 0) || math.IsInf(imag(c), 0)) {
		return fmt.Errorf("got %q, want complex %v (%v)", text, want, err)
	}
	if !sameFloat(real(c), real(want)) || !sameFloat(imag(c), imag(want)) {
		return fmt.Errorf("got %q (=%v), want complex %v", text, c, want)
	}
	return nil
}

func matchTime(text string, want time.Time) error {
	tm, err := time.Parse(time.RFC3339Nano, text)
	if err != nil {
		return fmt.Errorf("got %q, not an RFC3339 time: %v", text, err)
	}
	_, o1 := tm.Zone()
	_, o2 := want.Zone()
	if !tm.Equal(want) || o1 != o2 {
		return fmt.Errorf("got %q, want instant %s", text, want.Format(time.RFC3339Nano))
	}
	return nil
}

func matchDuration(text string, want time.Duration) error {
	d, err := time.ParseDuration(text)
	if err != nil || d != want {
		return fmt.Errorf("got %q, want duration %v (%dns)", text, want, int64(want))
	}
	return nil
}

// numericText tries the scalar numeric kinds; ok=false if exp is not numeric.
func matchNumeric(text string, v any) (err error, ok bool) {
	switch x := v.(type) {
	case int:
		return matchInt(text, int64(x)), true
	case int8:
		return matchInt(text, int64(x)), true
	case int16:
		return matchInt(text, int64(x)), true
	case int32:
		return matchInt(text, int64(x)), true
	case int64:
		return matchInt(text, x), true
	case uint:
		return matchUint(text, uint64(x)), true
	case uint8:
		return matchUint(text, uint64(x)), true
	case uint16:
		return matchUint(text, uint64(x)), true
	case uint32:
		return matchUint(text, uint64(x)), true
	case uint64:
		return matchUint(text, x), true
	case float32:
		return matchFloat(text, float64(x)), true
	case float64:
		return matchFloat(text, x), true
	case complex64:
		return matchComplex(text, complex128(x)), true
	case complex128:
		return matchComplex(text, x), true
	}
	return nil, false
}

func stringer(v any) (string, bool) {
	switch x := v.(type) {
	case Str:
		return x.String(), true
	case *PStr:
		return x.String(), true
	}
	return "", false
}

// sliceElems explodes a typed slice into element values; ok=false if v is not one.
func sliceElems(v any) (elems []any, ok bool) {
	switch x := v.(type) {
	case []string:
		for _, e := range x {
			elems = append(elems, e)
		}
	case []bool:
		for _, e := range x {
			elems = append(elems, e)
		}
	case []int:
		for _, e := range x {
			elems = append(elems, e)
		}
	case []int8:
		for _, e := range x {
			elems = append(elems, e)
		}
	case []int16:
		for _, e := range x {
			elems = append(elems, e)
		}
	case []int32:
		for _, e := range x {
			elems = append(elems, e)
		}
	case []int64:
		for _, e := range x {
			elems = append(elems, e)
		}
	case []uint:
		for _, e := range x {
			elems = append(elems, e)
		}
	case []uint16:
		for _, e := range x {
			elems = append(elems, e)
		}
	case []uint32:
		for _, e := range x {
			elems = append(elems, e)
		}
	case []uint64:
		for _, e := range x {
			elems = append(elems, e)
		}
	case []float32:
		for _, e := range x {
			elems = append(elems, e)
		}
	case []float64:
		for _, e := range x {
			elems = append(elems, e)
		}
	case []complex64:
		for _, e := range x {
			elems = append(elems, e)
		}
	case []complex128:
		for _, e := range x {
			elems = append(elems, e)
		}
	case []time.Duration:
		for _, e := range x {
			elems = append(elems, e)
		}
	case []time.Time:
		for _, e := range x {
			elems = append(elems, e)
		}
	default:
		return nil, false
	}
	return elems, true
}

// IsFallbackKind tells whether the value is rendered by the fallback formatter.
func IsFallbackKind(kind string) bool {
	switch kind {
	case "struct", "map", "named-int", "named-string", "array", "[]any", "uintptr", "[]error", "ptr-struct", "map-any", "logvaluer", "doc-marshaller":
		return true
	}
	return false
}

// MatchJSONValue compares a decoded JSON value with the logged Go value by meaning.
func MatchJSONValue(got any, v any) error {
	if err, ok := matchNumericJSON(got, v); ok {
		return err
	}
	switch x := v.(type) {
	case nil:
		if got == nil {
			return nil
		}
		if s, ok := got.(string); ok && s == "<nil>" {
			return nil
		}
		return fmt.Errorf("got %v, want null (or the fixed placeholder \"<nil>\" as a string)", Short(got))
	case string:
		s, ok := got.(string)
		if !ok {
			return fmt.Errorf("got %T %v, want string %q", got, Short(got), x)
		}
		if utf8.ValidString(x) && s != x {
			return fmt.Errorf("got string %q, want %q", s, x)
		}
		return nil
	case bool:
		if b, ok := got.(bool); !ok || b != x {
			return fmt.Errorf("got %v, want bool %v", Short(got), x)
		}
		return nil
	case time.Time:
		s, ok := got.(string)
		if !ok {
			return fmt.Errorf("got %T, want a time string", got)
		}
		return matchTime(s, x)
	case time.Duration:
		if n, ok := got.(json.Number); ok {
			return matchInt(n.String(), int64(x))
		}
		s, ok := got.(string)
		if !ok {
			return fmt.Errorf("got %T, want a duration", got)
		}
		return matchDuration(s, x)
	case error:
		want := x.Error()
		if o, ok := got.(*JObj); ok {
			m, has := o.Get("message")
			if !has {
				return fmt.Errorf("error object has no message member")
			}
			got = m
		}
		s, ok := got.(string)
		if !ok {
			return fmt.Errorf("got %T, want the error text", got)
		}
		if utf8.ValidString(want) && s != want {
			return fmt.Errorf("got error text %q, want %q", s, want)
		}
		return nil
	case []byte:
		s, ok := got.(string)
		if !ok {
			return fmt.Errorf("got %T %v, want the bytes as a string", got, Short(got))
		}
		if utf8.Valid(x) && s != string(x) {
			return fmt.Errorf("got %q, want the bytes %q", s, x)
		}
		return nil
	}
	if s, ok := stringer(v); ok {
		g, isStr := got.(string)
		if !isStr {
			return fmt.Errorf("got %T, want the Stringer text", got)
		}
		if utf8.ValidString(s) && g != s {
			return fmt.Errorf("got %q, want Stringer text %q", g, s)
		}
		return nil
	}
	if elems, ok := sliceElems(v); ok {
		if got == nil && len(elems) == 0 {
			return nil
		}
		arr, isArr := got.([]any)
		if !isArr {
			return fmt.Errorf("got %T %v, want an array of %d elements", got, Short(got), len(elems))
		}
		if len(arr) != len(elems) {
			return fmt.Errorf("got array of %d elements, want %d", len(arr), len(elems))
		}
		for i := range elems {
			if err := MatchJSONValue(arr[i], elems[i]); err != nil {
				return fmt.Errorf("element %d: %v", i, err)
			}
		}
		return nil
	}
	// fallback formatter: well-formed string mentioning the value's default formatting
	s, isStr := got.(string)
	if !isStr {
		// a structured rendering (object/array) is acceptable too
		return nil
	}
	if leaf, ok := missingLeaf(s, v); ok {
		return fmt.Errorf("fallback: got %q, which does not mention %q (a part of the value %v)", s, leaf, Short(v))
	}
	return nil
}

// missingLeaf: how a value of a kind without an encoder of its own is spelled is not stated (%v, %+v, a structured form ...);
// what every faithful spelling has in common is that the scalar parts of the value are in it. It reports a scalar part
// (fmt.Sprint of a number, bool or valid-UTF-8 string inside structs, maps, slices, arrays, pointers) that text does not
// contain. Values that print themselves (marshallers, LogValuers) are not looked into.
func missingLeaf(text string, v any) (string, bool) {
	switch v.(type) {
	case Valuer, DocUser, error, fmt.Stringer:
		return "", false
	}
	var leaves []string
	var walk func(rv reflect.Value, depth int)
	walk = func(rv reflect.Value, depth int) {
		if depth > 6 || !rv.IsValid() {
			return
		}
		switch rv.Kind() {
		case reflect.Ptr, reflect.Interface:
			if !rv.IsNil() {
				walk(rv.Elem(), depth+1)
			}
		case reflect.Struct:
			for i := 0; i < rv.NumField(); i++ {
				walk(rv.Field(i), depth+1)
			}
		case reflect.Map:
			for _, k := range rv.MapKeys() {
				walk(k, depth+1)
				walk(rv.MapIndex(k), depth+1)
			}
		case reflect.Slice, reflect.Array:
			for i := 0; i < rv.Len(); i++ {
				walk(rv.Index(i), depth+1)
			}
		case reflect.String:
			if s := rv.String(); utf8.ValidString(s) {
				leaves = append(leaves, s)
			}
		case reflect.Int, reflect.Int8, reflect.Int16, reflect.Int32, reflect.Int64:
			leaves = append(leaves, strconv.FormatInt(rv.Int(), 10))
		case reflect.Bool:
			leaves = append(leaves, strconv.FormatBool(rv.Bool()))
		}
	}
	if _, isErrs := v.([]error); isErrs {
		for _, e := range v.([]error) {
			if e != nil && utf8.ValidString(e.Error()) {
				leaves = append(leaves, e.Error())
			}
		}
	} else {
		walk(reflect.ValueOf(v), 0)
	}
	for _, l := range leaves {
		if !strings.Contains(text, l) {
			return l, true
		}
	}
	return "", false
}

func matchNumericJSON(got any, v any) (error, bool) {
	switch v.(type) {
	case int, int8, int16, int32, int64, uint, uint8, uint16, uint32, uint64, float32, float64, complex64, complex128:
		text, ok := numText(got)
		if !ok {
			return fmt.Errorf("got %T %v, want the number %v", got, Short(got), v), true
		}
		err, _ := matchNumeric(text, v)
		return err, true
	}
	return nil, false
}

// MatchJSONAttrs compares an object's members (minus the skip set) with the
// normalized expected attributes, in both directions.
func MatchJSONAttrs(o *JObj, exp []ExpAttr, skip map[string]bool, path string) error {
	want := map[string]ExpAttr{}
	for _, a := range exp {
		want[a.Key] = a
	}
	for _, k := range o.Keys {
		if skip[k] {
			continue
		}
		a, ok := want[k]
		if !ok {
			return fmt.Errorf("%smember %q was not logged", path, k)
		}
		delete(want, k)
		if a.IsGroup {
			sub, isObj := o.Vals[k].(*JObj)
			if !isObj {
				return fmt.Errorf("%sgroup %q must be a nested object, got %T", path, k, o.Vals[k])
			}
			if err := MatchJSONAttrs(sub, a.Group, nil, path+k+"."); err != nil {
				return err
			}
			continue
		}
		if err := MatchJSONValue(o.Vals[k], a.Val.V); err != nil {
			return fmt.Errorf("%smember %q (%s): %v", path, k, a.Val.Kind, err)
		}
	}
	for k, a := range want {
		if a.IsGroup && len(Flatten(a.Group, "")) == 0 {
			continue // an empty group may be absent
		}
		return fmt.Errorf("%sattribute %q is missing from the record", path, k)
	}
	return nil
}

// IsStringLike tells whether the logfmt statement requires quoting for the value.
func IsStringLike(v any) bool {
	switch v.(type) {
	case string, error, time.Time, time.Duration, []byte, Str, *PStr:
		return true
	}
	return false
}

// MatchLogfmtValue compares one parsed logfmt value with the logged Go value.
// requireQuote=false relaxes the quoting requirement (colored mode).
func MatchLogfmtValue(p LPair, v any, requireQuote bool) error {
	needQuoted := func() error {
		if requireQuote && p.Kind != "quoted" {
			return fmt.Errorf("value %q must be a quoted string", p.Raw)
		}
		return nil
	}
	if err, ok := matchNumeric(p.Raw, v); ok {
		if p.Kind == "quoted" {
			err, _ = matchNumeric(p.Str, v)
		}
		return err
	}
	switch x := v.(type) {
	case nil:
		if p.Str == "<nil>" || p.Str == "null" || p.Str == "nil" {
			return nil
		}
		return fmt.Errorf("got %q for a nil value", p.Raw)
	case bool:
		if p.Raw != strconv.FormatBool(x) {
			return fmt.Errorf("got %q, want %v", p.Raw, x)
		}
		return nil
	case string:
		if err := needQuoted(); err != nil {
			return err
		}
		if p.Str != x {
			return fmt.Errorf("got %q, want %q", p.Str, x)
		}
		return nil
	case []byte:
		if err := needQuoted(); err != nil {
			return err
		}
		if p.Str != string(x) {
			return fmt.Errorf("got %q, want the bytes %q", p.Str, x)
		}
		return nil
	case error:
		if err := needQuoted(); err != nil {
			return err
		}
		if p.Str != x.Error() {
			return fmt.Errorf("got %q, want error text %q", p.Str, x.Error())
		}
		return nil
	case time.Time:
		if err := needQuoted(); err != nil {
			return err
		}
		return matchTime(p.Str, x)
	case time.Duration:
		if err := needQuoted(); err != nil {
			return err
		}
		return matchDuration(p.Str, x)
	}
	if s, ok := stringer(v); ok {
		if err := needQuoted(); err != nil {
			return err
		}
		if p.Str != s {
			return fmt.Errorf("got %q, want Stringer text %q", p.Str, s)
		}
		return nil
	}
	if elems, ok := sliceElems(v); ok {
		if p.Kind != "list" {
			return fmt.Errorf("got %q, want a list of %d elements", p.Raw, len(elems))
		}
		if len(p.Elems) != len(elems) {
			return fmt.Errorf("got list %q with %d elements, want %d", p.Raw, len(p.Elems), len(elems))
		}
		for i, e := range elems {
			kind := "bare"
			if p.Elems[i].Quoted {
				kind = "quoted"
			}
			if err := MatchLogfmtValue(LPair{Key: p.Key, Raw: p.Elems[i].Raw, Str: p.Elems[i].Str, Kind: kind}, e, requireQuote); err != nil {
				return fmt.Errorf("element %d: %v", i, err)
			}
		}
		return nil
	}
	// fallback formatter
	if err := needQuoted(); err != nil {
		return err
	}
	if leaf, ok := missingLeaf(p.Str, v); ok {
		return fmt.Errorf("fallback: got %q, which does not mention %q (a part of the value %v)", p.Str, leaf, Short(v))
	}
	return nil
}

// MatchLogfmtAttrs compares parsed pairs with the flattened normalized expectation: the same keys, each as often as
// expected, values by meaning - in ANY order (only C06 and C07 state an order: MatchLogfmtAttrsOrdered).
func MatchLogfmtAttrs(pairs []LPair, exp []ExpAttr, requireQuote bool) error {
	flat := Flatten(exp, "")
	if len(pairs) != len(flat) {
		var got, want []string
		for _, p := range pairs {
			got = append(got, p.Key)
		}
		for _, a := range flat {
			want = append(want, a.Key)
		}
		return fmt.Errorf("record has attribute keys %q, want %q", got, want)
	}
	used := make([]bool, len(pairs))
	for _, a := range flat {
		found := -1
		var lastErr error
		for i, p := range pairs {
			if used[i] || p.Key != a.Key {
				continue
			}
			if err := MatchLogfmtValue(p, a.Val.V, requireQuote); err != nil {
				lastErr = err
				continue
			}
			found = i
			break
		}
		if found < 0 {
			if lastErr != nil {
				return fmt.Errorf("attribute %q (%s): %v", a.Key, a.Val.Kind, lastErr)
			}
			var got []string
			for _, p := range pairs {
				got = append(got, p.Key)
			}
			return fmt.Errorf("attribute %q is missing; the record has the keys %q", a.Key, got)
		}
		used[found] = true
	}
	return nil
}

// MatchLogfmtAttrsOrdered is MatchLogfmtAttrs plus the order of the expectation (ascending keys after Normalize):
// for the properties that state an order.
func MatchLogfmtAttrsOrdered(pairs []LPair, exp []ExpAttr, requireQuote bool) error {
	if err := MatchLogfmtAttrs(pairs, exp, requireQuote); err != nil {
		return err
	}
	for i, a := range Flatten(exp, "") {
		if pairs[i].Key != a.Key {
			return fmt.Errorf("attribute #%d has key %q, want %q (ascending key order)", i, pairs[i].Key, a.Key)
		}
	}
	return nil
}

// AttrsOf builds []slog.Attr from an attribute list deterministically (no draws),
// so that the same call can be issued several times with fresh, equal arguments.
func AttrsOf(as []ExpAttr) slog.Attrs {
	var out slog.Attrs
	for _, a := range as {
		if a.IsGroup {
			out = append(out, slog.NewGroupedAttr(a.Key, AttrsOf(a.Group)...))
			continue
		}
		out = append(out, typedAttr(a))
	}
	return out
}
