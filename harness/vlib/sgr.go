package vlib

import (
	"fmt"
)

// SGRResult is what the terminal-state simulator saw in one payload.
type SGRResult struct {
	Text        string // payload with all SGR sequences removed
	DirtyAtLF   []int  // byte offsets (in Text) of line breaks reached with a colour/attribute still on
	DirtyAtEnd  bool
	BadBytes    []int // offsets (in the payload) of control bytes other than LF, or ESC not starting an SGR sequence
	NumSGR      int
	StateAtLine []bool // per line break: dirty?
}

// SimulateSGR walks the payload like a terminal would: ESC[0m / ESC[m reset the state,
// any other ESC[ … m sequence switches something on. Everything else is text.
func SimulateSGR(p []byte) SGRResult {
	var r SGRResult
	dirty := false
	var text []byte
	for i := 0; i < len(p); i++ {
		b := p[i]
		if b == 0x1b {
			// CSI … m ?
			if i+1 < len(p) && p[i+1] == '[' {
				j := i + 2
				for j < len(p) && (p[j] >= '0' && p[j] <= '9' || p[j] == ';') {
					j++
				}
				if j < len(p) && p[j] == 'm' {
					params := string(p[i+2 : j])
					if params == "" || params == "0" {
						dirty = false
					} else {
						dirty = true
					}
					r.NumSGR++
					i = j
					continue
				}
			}
			r.BadBytes = append(r.BadBytes, i)
			continue
		}
		if b == '\n' {
			r.StateAtLine = append(r.StateAtLine, dirty)
			if dirty {
				r.DirtyAtLF = append(r.DirtyAtLF, len(text))
			}
			text = append(text, b)
			continue
		}
		if b < 0x20 || b == 0x7f {
			r.BadBytes = append(r.BadBytes, i)
		}
		text = append(text, b)
	}
	r.DirtyAtEnd = dirty
	r.Text = string(text)
	return r
}

func (r SGRResult) String() string {
	return fmt.Sprintf("sgr=%d dirtyAtLF=%v dirtyAtEnd=%v bad=%v", r.NumSGR, r.DirtyAtLF, r.DirtyAtEnd, r.BadBytes)
}
