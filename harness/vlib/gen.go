package vlib

import (
	"errors"
	"fmt"
	"math"
	"strings"
	"time"
	"unicode"

	"github.com/hedzr/logg/slog"
	errorsv3 "gopkg.in/hedzr/errors.v3"
	"pgregory.net/rapid"
)

// ---------- messages ----------

// HostileStrings are constants every string generator mixes in.
var HostileStrings = []string{
	"", " ", "\n", "\r\n", "a\nb", "a\rb", "tab\there", `quote"inside`, `back\slash`, `\"`, `"`, `\`, "\x00", "\x01\x02", "\x07bell",
	"\x1b[31mred\x1b[0m", "\x1b", "\x7f", "\u0080\u009f", " line sep", "\xff\xfe", "\xc3\x28", "caf\xc3", "日本語", "🙂 non-BMP 𝄞",
	"\ufffd", "\ufeffbom", `{"level":"error","msg":"forged"}`, "\n{\"level\":\"error\",\"msg\":\"forged\"}", ` level="error" msg="forged"`,
	"a=b c=d", "<b>bold</b> &amp;", "%d %s %v", "'single'", "`back`", "x\vy\fz", "\u200b\u00a0", "é", "ends with backslash\\",
}

// GenAnyString draws arbitrary bytes biased towards framing-hostile content.
func GenAnyString() *rapid.Generator[string] {
	return rapid.OneOf(
		rapid.SampledFrom(HostileStrings),
		rapid.String(),
		rapid.StringOf(rapid.RuneFrom([]rune("ab \"\\\n\r\t\x00\x1b\x7f=:,{}[]<>&é世🙂 "))),
		rapid.Map(rapid.SliceOfN(rapid.Byte(), 0, 24), func(b []byte) string { return string(b) }),
		rapid.Custom(func(t *rapid.T) string {
			a := rapid.SampledFrom(HostileStrings).Draw(t, "h1")
			b := rapid.StringN(0, 8, -1).Draw(t, "mid")
			c := rapid.SampledFrom(HostileStrings).Draw(t, "h2")
			return a + b + c
		}),
		GenBoundaryString(),
	)
}

// boundaryLengths are the byte lengths around which buffers, size classes and fast paths change.
var boundaryLengths = []int{15, 16, 17, 31, 32, 33, 63, 64, 65, 127, 128, 129, 255, 256, 257, 511, 512, 513, 1023, 1024, 1025, 2047, 2048, 2049, 4095, 4096, 4097, 8191, 8192, 8193}

// GenBoundaryString draws a string of exactly one of the boundary lengths: plain filler, optionally with one
// byte that needs escaping (or a multi-byte rune straddling the boundary) at the very end or the very start.
func GenBoundaryString() *rapid.Generator[string] {
	return rapid.Custom(func(t *rapid.T) string {
		n := rapid.SampledFrom(boundaryLengths).Draw(t, "boundaryLen")
		special := rapid.SampledFrom([]string{"", "", "\"", "\\", "\n", "\x01", "\u00e9", "\u4e16", "\xff", "\x1b"}).Draw(t, "boundarySpecial")
		if len(special) > n {
			special = ""
		}
		fill := strings.Repeat("a", n-len(special))
		if rapid.Bool().Draw(t, "specialFirst") {
			return special + fill
		}
		return fill + special
	})
}

// GenPlainString draws short printable ASCII words.
func GenPlainString() *rapid.Generator[string] {
	return rapid.StringMatching(`[a-zA-Z0-9_./:-]{0,12}( [a-z]{1,6}){0,2}`)
}

// GenMsg draws a message of any class.
func GenMsg() *rapid.Generator[string] {
	return rapid.Custom(func(t *rapid.T) string {
		if Rare(t, "hugeMsg", 6) {
			// far beyond every buffer and size class: 70-300 KB, one or several lines
			n := rapid.IntRange(70<<10, 300<<10).Draw(t, "hugeLen")
			unit := rapid.SampledFrom([]string{"huge message ", "huge\nmulti-line message ", "h\u00fcge m\u00e9ssage \u4e16\u754c "}).Draw(t, "hugeUnit")
			return strings.Repeat(unit, n/len(unit)+1)
		}
		return genMsgOrdinary().Draw(t, "m")
	})
}

func genMsgOrdinary() *rapid.Generator[string] {
	return rapid.OneOf(
		rapid.StringMatching(`[a-z]{1,8}( [a-z]{1,8}){0,4}`),
		GenAnyString(),
		rapid.Custom(func(t *rapid.T) string { // multi-line
			n := rapid.IntRange(2, 5).Draw(t, "lines")
			parts := make([]string, n)
			for i := range parts {
				parts[i] = rapid.StringMatching(`[a-z ]{0,12}`).Draw(t, "line")
			}
			s := strings.Join(parts, "\n")
			if rapid.Bool().Draw(t, "trailingLF") {
				s += "\n"
			}
			return s
		}),
		rapid.Map(rapid.IntRange(1025, 5000), func(n int) string { return strings.Repeat("long message ", n/13+1)[:n] }),
		rapid.SampledFrom([]string{"", " ", "\t", "\n", " \r\n\t "}),
		// messages that LOOK blank without being empty or made of blank, tab, CR, LF (the statement's "whitespace-only" is the
		// library's strings.Trim set): vertical tab, form feed, no-break space, next line, a zero-width space
		rapid.SampledFrom([]string{"\v", "\f", "\u00a0", "\u0085", " \v ", "\u200b", "\u2028", "\x00", " \f\n"}),
		// ... and messages of control characters only, which are not white space in any reading
		rapid.SampledFrom([]string{"\a", "\x1b", " \x01 ", "\x7f", "\x00\x00", "\b\b"}),
	)
}

// ---------- values ----------

// Str is a fmt.Stringer (not an error, no marshaller).
type Str struct{ S string }

func (s Str) String() string { return s.S }

// PStr is a Stringer with pointer receiver.
type PStr struct{ S string }

func (s *PStr) String() string { return s.S }

// Plain struct / named types for the fallback formatter.
type Pt struct {
	X int
	Y string
}
type MyInt int
type MyStr string

// Value is a generated attribute value together with its kind label.
type Value struct {
	Kind string
	V    any
}

var fixedZones = []*time.Location{time.UTC, time.FixedZone("", 3600), time.FixedZone("X", -5*3600-1800), time.FixedZone("Y", 14*3600), time.FixedZone("Z", -12*3600)}

// GenTime draws instants in years 1..9999 with a fixed zone.
func GenTime() *rapid.Generator[time.Time] {
	return rapid.Custom(func(t *rapid.T) time.Time {
		if Rare(t, "remarkableInstant", 4) {
			// the zero time.Time (an unset field), the Unix epoch, the instants next to them
			return rapid.SampledFrom([]time.Time{{}, time.Unix(0, 0).UTC(), time.Unix(0, 0).In(fixedZones[1%len(fixedZones)]), time.Unix(-1, 999999999).UTC(), time.Time{}.Add(time.Nanosecond)}).Draw(t, "instant")
		}
		sec := rapid.Int64Range(-62135596800+86400, 253402300799-86400).Draw(t, "sec")
		nsec := rapid.OneOf(rapid.Int64Range(0, 999999999), rapid.SampledFrom([]int64{0, 1, 500, 999999999, 123456000, 100000000})).Draw(t, "nsec")
		loc := rapid.SampledFrom(fixedZones).Draw(t, "zone")
		return time.Unix(sec, nsec).In(loc)
	})
}

func GenDuration() *rapid.Generator[time.Duration] {
	return rapid.OneOf(
		rapid.Map(rapid.Int64(), func(i int64) time.Duration { return time.Duration(i) }),
		rapid.SampledFrom([]time.Duration{0, 1, -1, time.Microsecond, 1500 * time.Millisecond, time.Hour, 25 * time.Hour, math.MaxInt64, math.MinInt64}),
	)
}

func genFloat64() *rapid.Generator[float64] {
	return rapid.OneOf(
		rapid.Float64(),
		rapid.SampledFrom([]float64{0, math.Copysign(0, -1), 1, -1, 0.1, 1e21, 1e-7, math.MaxFloat64, math.SmallestNonzeroFloat64, math.Inf(1), math.Inf(-1), math.NaN(), 1 << 53, 123456789.125}),
	)
}

func genFloat32() *rapid.Generator[float32] {
	return rapid.OneOf(
		rapid.Float32(),
		rapid.SampledFrom([]float32{0, 1, -1, 0.1, math.MaxFloat32, math.SmallestNonzeroFloat32, float32(math.Inf(1)), float32(math.NaN()), 16777216}),
	)
}

// GenError draws error values: plain, wrapped, joined, hedzr/errors.v3 with stack info.
func GenError(msg *rapid.Generator[string]) *rapid.Generator[error] {
	return rapid.Custom(func(t *rapid.T) error {
		m := msg.Draw(t, "errmsg")
		switch rapid.IntRange(0, 5).Draw(t, "errkind") {
		case 4: // a long chain of wrapped errors (anything that walks Unwrap has a long way to go)
			var e error = errors.New(m)
			for i := rapid.SampledFrom([]int{2, 7, 8, 9, 10, 12, 40}).Draw(t, "chain"); i > 0; i-- {
				e = fmt.Errorf("layer %d: %w", i, e)
			}
			return e
		case 5: // errors.v3 error wrapping a standard one
			return errorsv3.New("%s", m).WithErrors(errors.New("inner"))
		case 0:
			return errors.New(m)
		case 1:
			return fmt.Errorf("wrap: %w", errors.New(m))
		case 2:
			return errorsv3.New("%s", m)
		default:
			return errors.Join(errors.New(m), errors.New("second"))
		}
	})
}

// ScalarKinds lists the kind labels GenScalar can produce.
var ScalarKinds = []string{"string", "bool", "int", "int8", "int16", "int32", "int64", "uint", "uint8", "uint16", "uint32", "uint64",
	"float32", "float64", "complex64", "complex128", "time", "duration", "error", "stringer", "bytes", "nil"}

// GenScalar draws a value of one of the supported non-slice kinds. strs is the generator for embedded strings.
func GenScalar(strs *rapid.Generator[string]) *rapid.Generator[Value] {
	return rapid.Custom(func(t *rapid.T) Value {
		k := rapid.SampledFrom(ScalarKinds).Draw(t, "kind")
		return genKind(t, k, strs)
	})
}

func genKind(t *rapid.T, k string, strs *rapid.Generator[string]) Value {
	switch k {
	case "string":
		return Value{k, strs.Draw(t, "s")}
	case "bool":
		return Value{k, rapid.Bool().Draw(t, "b")}
	case "int":
		return Value{k, rapid.Int().Draw(t, "i")}
	case "int8":
		return Value{k, rapid.Int8().Draw(t, "i")}
	case "int16":
		return Value{k, rapid.Int16().Draw(t, "i")}
	case "int32":
		return Value{k, rapid.Int32().Draw(t, "i")}
	case "int64":
		return Value{k, rapid.OneOf(rapid.Int64(), rapid.SampledFrom([]int64{math.MinInt64, math.MaxInt64, 1 << 53, -(1 << 53) - 1})).Draw(t, "i")}
	case "uint":
		return Value{k, rapid.Uint().Draw(t, "u")}
	case "uint8":
		return Value{k, rapid.Uint8().Draw(t, "u")}
	case "uint16":
		return Value{k, rapid.Uint16().Draw(t, "u")}
	case "uint32":
		return Value{k, rapid.Uint32().Draw(t, "u")}
	case "uint64":
		return Value{k, rapid.OneOf(rapid.Uint64(), rapid.SampledFrom([]uint64{math.MaxUint64, 1 << 63, 1<<53 + 1})).Draw(t, "u")}
	case "float32":
		return Value{k, genFloat32().Draw(t, "f")}
	case "float64":
		return Value{k, genFloat64().Draw(t, "f")}
	case "complex64":
		return Value{k, complex(genFloat32().Draw(t, "re"), genFloat32().Draw(t, "im"))}
	case "complex128":
		return Value{k, complex(genFloat64().Draw(t, "re"), genFloat64().Draw(t, "im"))}
	case "time":
		return Value{k, GenTime().Draw(t, "tm")}
	case "duration":
		return Value{k, GenDuration().Draw(t, "d")}
	case "error":
		return Value{k, GenError(strs).Draw(t, "err")}
	case "stringer":
		if rapid.Bool().Draw(t, "ptr") {
			return Value{k, &PStr{strs.Draw(t, "s")}}
		}
		return Value{k, Str{strs.Draw(t, "s")}}
	case "bytes":
		return Value{k, []byte(strs.Draw(t, "s"))}
	case "nil":
		return Value{k, nil}
	}
	panic("unknown kind " + k)
}

// SliceKinds lists the typed slice kinds the encoder renders element-wise.
var SliceKinds = []string{"[]string", "[]bool", "[]int", "[]int8", "[]int16", "[]int32", "[]int64", "[]uint", "[]uint16", "[]uint32", "[]uint64",
	"[]float32", "[]float64", "[]complex64", "[]complex128", "[]duration", "[]time"}

func genSliceOf[T any](t *rapid.T, g *rapid.Generator[T]) []T {
	s := rapid.SliceOfN(g, 0, 4).Draw(t, "elems")
	if len(s) == 0 && rapid.Bool().Draw(t, "nilslice") {
		return nil
	}
	return s
}

// GenSlice draws a typed slice value.
func GenSlice(strs *rapid.Generator[string]) *rapid.Generator[Value] {
	return rapid.Custom(func(t *rapid.T) Value {
		k := rapid.SampledFrom(SliceKinds).Draw(t, "kind")
		switch k {
		case "[]string":
			return Value{k, genSliceOf(t, strs)}
		case "[]bool":
			return Value{k, genSliceOf(t, rapid.Bool())}
		case "[]int":
			return Value{k, genSliceOf(t, rapid.Int())}
		case "[]int8":
			return Value{k, genSliceOf(t, rapid.Int8())}
		case "[]int16":
			return Value{k, genSliceOf(t, rapid.Int16())}
		case "[]int32":
			return Value{k, genSliceOf(t, rapid.Int32())}
		case "[]int64":
			return Value{k, genSliceOf(t, rapid.Int64())}
		case "[]uint":
			return Value{k, genSliceOf(t, rapid.Uint())}
		case "[]uint16":
			return Value{k, genSliceOf(t, rapid.Uint16())}
		case "[]uint32":
			return Value{k, genSliceOf(t, rapid.Uint32())}
		case "[]uint64":
			return Value{k, genSliceOf(t, rapid.Uint64())}
		case "[]float32":
			return Value{k, genSliceOf(t, genFloat32())}
		case "[]float64":
			return Value{k, genSliceOf(t, genFloat64())}
		case "[]complex64":
			return Value{k, genSliceOf(t, rapid.Map(genFloat32(), func(f float32) complex64 { return complex(f, -f) }))}
		case "[]complex128":
			return Value{k, genSliceOf(t, rapid.Map(genFloat64(), func(f float64) complex128 { return complex(f, 1) }))}
		case "[]duration":
			return Value{k, genSliceOf(t, GenDuration())}
		default:
			return Value{"[]time", genSliceOf(t, GenTime())}
		}
	})
}

// Valuer is a user type implementing slog.LogValuer (Value() slog.Attr).
// It holds plain data only: the fallback formatter prints the struct with %v, and a pointer inside it would put an
// address into the record.
type Valuer struct {
	K string
	V any
	G bool // it stands for a group (K holding one member n=V) instead of the plain attribute K=V
}

func (v Valuer) Value() slog.Attr {
	if v.G {
		return slog.Group(v.K, "n", v.V)
	}
	return slog.NewAttr(v.K, v.V)
}

// DocUser is the sample marshaller of the package documentation (PrintCtx.Begin): a user type that prints itself
// with the encoder's Add... methods.
type DocUser struct {
	Name, Email string
	CreatedAt   int64
}

func (u DocUser) MarshalSlogObject(enc *slog.PrintCtx) error {
	enc.Begin()
	enc.AddString("name", u.Name)
	enc.AddComma()
	enc.AddString("email", u.Email)
	enc.AddComma()
	enc.AddInt64("createdAt", u.CreatedAt)
	enc.End(false)
	return nil
}

// GenDocUser draws a DocUser value (kind "doc-marshaller").
func GenDocUser(strs *rapid.Generator[string]) *rapid.Generator[Value] {
	return rapid.Custom(func(t *rapid.T) Value {
		return Value{"doc-marshaller", DocUser{strs.Draw(t, "userName"), strs.Draw(t, "userEmail"), rapid.Int64().Draw(t, "createdAt")}}
	})
}

// GenFallback draws values of kinds only the fallback formatter handles.
func GenFallback(strs *rapid.Generator[string]) *rapid.Generator[Value] {
	return rapid.Custom(func(t *rapid.T) Value {
		switch rapid.IntRange(0, 11).Draw(t, "fb") {
		case 10: // a user type with the exported LogValuer interface, standing for a plain attribute
			return Value{"logvaluer", Valuer{K: strs.Draw(t, "lvk"), V: strs.Draw(t, "lvv")}}
		case 11: // ... for a group
			return Value{"logvaluer", Valuer{K: strs.Draw(t, "lvk"), V: rapid.Int().Draw(t, "lvn"), G: true}}
		case 7:
			n := rapid.IntRange(0, 3).Draw(t, "nerrs")
			es := make([]error, n)
			for i := range es {
				es[i] = errors.New(strs.Draw(t, "errtext"))
			}
			return Value{"[]error", es}
		case 8:
			return Value{"ptr-struct", &Pt{rapid.Int().Draw(t, "x"), strs.Draw(t, "y")}}
		case 9:
			return Value{"map-any", map[string]any{strs.Draw(t, "mk"): []string{strs.Draw(t, "mv")}}}
		case 0:
			return Value{"struct", Pt{rapid.Int().Draw(t, "x"), strs.Draw(t, "y")}}
		case 1:
			return Value{"map", map[string]int{strs.Draw(t, "mk"): rapid.Int().Draw(t, "mv")}}
		case 2:
			return Value{"named-int", MyInt(rapid.Int().Draw(t, "i"))}
		case 3:
			return Value{"named-string", MyStr(strs.Draw(t, "s"))}
		case 4:
			return Value{"array", [2]int{rapid.Int().Draw(t, "a"), rapid.Int().Draw(t, "b")}}
		case 5:
			return Value{"[]any", []any{rapid.Int().Draw(t, "a"), strs.Draw(t, "s")}}
		default:
			return Value{"uintptr", uintptr(rapid.Uint32().Draw(t, "p"))}
		}
	})
}

// GenValue draws any supported value.
func GenValue(strs *rapid.Generator[string]) *rapid.Generator[Value] {
	return rapid.OneOf(GenScalar(strs), GenScalar(strs), GenScalar(strs), GenSlice(strs), GenFallback(strs))
}

// ---------- free-form argument lists (C02) ----------

// GenArgs draws a free-form argument list with well-formed and malformed shapes:
// key/value pairs, dangling keys, non-string values in key position, Attr, Attrs,
// []Attr (with nil elements), groups nested up to depth 6, empty groups and keys.
// It returns the list and labels describing the shapes it contains.
func GenArgs() *rapid.Generator[ArgList] {
	return rapid.Custom(func(t *rapid.T) ArgList {
		var al ArgList
		al.Labels = map[string]bool{}
		n := rapid.OneOf(rapid.IntRange(0, 8), rapid.IntRange(0, 8), rapid.IntRange(9, 90)).Draw(t, "nargs")
		for i := 0; i < n; i++ {
			genArgItem(t, &al, 0)
		}
		if len(al.Args) >= 34 {
			al.Labels["args>=34"] = true
		}
		return al
	})
}

// ArgList is a generated argument list.
type ArgList struct {
	Args   []any
	Labels map[string]bool
}

func genKeyAny(t *rapid.T) string {
	return rapid.OneOf(rapid.StringMatching(`[a-z]{1,6}`), rapid.StringMatching(`[a-c]`), GenAnyString(),
		rapid.SampledFrom([]string{"", "time", "level", "msg", "caller", "logger", "error", "a.b", "k k", "k=v", "!BADKEY"})).Draw(t, "key")
}

func genGroupAttr(t *rapid.T, al *ArgList, depth int) slog.Attr {
	key := genKeyAny(t)
	n := rapid.IntRange(0, 3).Draw(t, "gsize")
	if n == 0 {
		al.Labels["empty-group"] = true
	}
	var inner ArgList
	inner.Labels = al.Labels
	for i := 0; i < n; i++ {
		if depth < 6 && rapid.IntRange(0, 2).Draw(t, "nest") == 0 {
			inner.Args = append(inner.Args, genGroupAttr(t, al, depth+1))
			al.Labels[fmt.Sprintf("group-depth>=%d", depth+2)] = true
		} else {
			genArgItem(t, &inner, depth+1)
		}
	}
	al.Labels["group"] = true
	switch rapid.IntRange(0, 2).Draw(t, "gctor") {
	case 0:
		return slog.Group(key, inner.Args...)
	case 1:
		return slog.NewGroupedAttrEasy(key, inner.Args...)
	default:
		var as []slog.Attr
		for _, a := range inner.Args {
			if at, ok := a.(slog.Attr); ok {
				as = append(as, at)
			}
		}
		return slog.NewGroupedAttr(key, as...)
	}
}

func genArgItem(t *rapid.T, al *ArgList, depth int) {
	strs := GenAnyString()
	switch rapid.IntRange(0, 13).Draw(t, "shape") {
	case 0, 1, 2, 3: // key, value
		v := GenValue(strs).Draw(t, "val")
		al.Args = append(al.Args, genKeyAny(t), v.V)
		if v.V == nil {
			al.Labels["nil-value"] = true
		}
	case 4: // Attr
		v := GenValue(strs).Draw(t, "val")
		al.Args = append(al.Args, slog.NewAttr(genKeyAny(t), v.V))
		al.Labels["attr"] = true
	case 5: // typed constructors
		al.Args = append(al.Args, slog.Int(genKeyAny(t), rapid.Int().Draw(t, "i")), slog.String(genKeyAny(t), strs.Draw(t, "s")),
			slog.Any(genKeyAny(t), nil))
		al.Labels["typed-ctor"] = true
	case 6: // dangling key (a lone string)
		al.Args = append(al.Args, genKeyAny(t))
		al.Labels["dangling-or-shifted-key"] = true
	case 7: // non-string in key position
		al.Args = append(al.Args, rapid.SampledFrom([]any{42, nil, 3.5, true, Pt{1, "p"}, []int{1}, errors.New("e"), Str{"s"}, []byte("b"), time.Second}).Draw(t, "badkey"))
		al.Labels["non-string-key"] = true
	case 8: // Attrs
		as := slog.NewAttrs("x", 1, genKeyAny(t), strs.Draw(t, "s"))
		al.Args = append(al.Args, as)
		al.Labels["attrs"] = true
	case 9: // []Attr possibly with nil elements
		sl := []slog.Attr{slog.NewAttr(genKeyAny(t), 1)}
		if rapid.Bool().Draw(t, "nilelem") {
			sl = append(sl, nil)
			al.Labels["nil-attr-element"] = true
		}
		sl = append(sl, slog.Bool("flag", true))
		al.Args = append(al.Args, sl)
		al.Labels["[]attr"] = true
	case 10, 11: // group
		if depth < 6 {
			al.Args = append(al.Args, genGroupAttr(t, al, depth))
		}
	case 12: // empty key with a value
		al.Args = append(al.Args, "", rapid.Int().Draw(t, "i"))
		al.Labels["empty-key"] = true
	default: // error value under the conventional key
		al.Args = append(al.Args, "error", GenError(strs).Draw(t, "err"))
		al.Labels["error-value"] = true
	}
}

// LooksBlank reports whether a message consists of white space in the wide sense only (unicode.IsSpace, zero-width space,
// byte-order mark) - or is empty. C02 says a blank Print/Println is "an empty or whitespace-only message"; the library
// takes that as blank, tab, CR and LF. For the messages in between (vertical tab, form feed, no-break space, ...) both
// readings are allowed: a check that needs a RECORD at the Always severity avoids them, C02 accepts either delivery.
func LooksBlank(msg string) bool {
	return strings.TrimFunc(msg, func(r rune) bool { return unicode.IsSpace(r) || r == 0x200b || r == 0xfeff }) == ""
}
