// C17 — level names and the level registry: round trips and safe registration.
package c17

import (
	"context"
	"encoding/json"
	"fmt"
	"math"
	"sort"
	"strings"
	"testing"

	"github.com/hedzr/is/term/color"
	"github.com/hedzr/is"
	"github.com/hedzr/logg/slog"
	"github.com/hedzr/logg/slog/verifharness/vlib"
	"pgregory.net/rapid"
)

func TestMain(m *testing.M) { vlib.Main(m) }

// documented names and aliases of the built-in levels (slog/level.go)
var builtinTitles = []string{"fail", "success", "ok", "always", "off", "no", "disabled", "trace", "debug", "devel", "dev", "develop",
	"info", "warn", "warning", "error", "fatal", "panic"}

type regSpec struct {
	Value   int
	Title   string
	Tags    [slog.MaxLengthShortTag]string
	HasTags bool
	Color   bool
	TreatAs int // -1 none
	ErrDev  bool
	// ErrDevForm: how the request is written: 0 RegWithPrintToErrorDevice(true); 1 RegWithPrintToErrorDevice() - the form
	// of the package documentation and the README; 2 RegWithPrintToErrorDevice(false, true) (the last value counts).
	// Without a request: 0 no option at all; 1 RegWithPrintToErrorDevice(false); 2 RegWithPrintToErrorDevice(true, false)
	ErrDevForm int
}

func (r regSpec) String() string {
	return fmt.Sprintf("RegisterLevel(%d,%q,tags=%v%q,color=%v,treatAs=%d,errdev=%v(written in form %d))", r.Value, r.Title, r.HasTags, r.Tags, r.Color, r.TreatAs, r.ErrDev, r.ErrDevForm)
}

type known struct {
	spec regSpec
}

type world struct {
	t        vlib.TB
	values   map[int]bool    // numeric values in use
	titlesCI map[string]bool // lower-cased titles in use
	reg      map[int]regSpec // successfully registered
	model    *vlib.LevelModel
	hist     []string
	labels   map[string]bool
}

func newWorld(t vlib.TB) *world {
	w := &world{t: t, values: map[int]bool{}, titlesCI: map[string]bool{}, reg: map[int]regSpec{}, model: vlib.NewLevelModel(), labels: map[string]bool{}}
	for _, l := range vlib.Builtins {
		w.values[int(l)] = true
	}
	for _, s := range builtinTitles {
		w.titlesCI[s] = true
	}
	return w
}

func (w *world) history() string { return strings.Join(w.hist, "; ") }

func (w *world) allKnown() []slog.Level {
	out := append([]slog.Level{}, vlib.Builtins...)
	var vs []int
	for v := range w.reg {
		vs = append(vs, v)
	}
	sort.Ints(vs)
	for _, v := range vs {
		out = append(out, slog.Level(v))
	}
	return out
}

func safeShortTag(l slog.Level, n int) (s string) {
	defer func() {
		if p := recover(); p != nil {
			s = fmt.Sprintf("PANIC(%v)", p)
		}
	}()
	return l.ShortTag(n)
}

// fingerprint collects every observable of the level API for the given levels and titles.
func (w *world) fingerprint(extraLevels []slog.Level, extraTitles []string) string {
	var sb strings.Builder
	fmt.Fprintf(&sb, "all=%v|", slog.AllLevels())
	levels := append(w.allKnown(), extraLevels...)
	gate := slog.New("fp").SetLevel(slog.InfoLevel)
	for _, l := range levels {
		mt, err := l.MarshalText()
		fmt.Fprintf(&sb, "%d:%q,%q,%v", int(l), l.String(), mt, err != nil)
		for n := 1; n <= 5; n++ {
			fmt.Fprintf(&sb, ",%q", safeShortTag(l, n))
		}
		fmt.Fprintf(&sb, ",en=%v,route=%v|", gate.Enabled(l), w.routedToError(l))
	}
	titles := append(append([]string{}, builtinTitles...), extraTitles...)
	for _, r := range w.reg {
		titles = append(titles, r.Title)
	}
	sort.Strings(titles)
	for _, s := range titles {
		if l, ok := quietParse(s); ok {
			fmt.Fprintf(&sb, "%q=>%d|", s, int(l))
		} else {
			fmt.Fprintf(&sb, "%q=>err|", s)
		}
	}
	return sb.String()
}

// quietParse looks a title up without going through ParseLevel's failure path (which
// logs a warning on the default logger): UnmarshalText uses the same table.
func quietParse(s string) (slog.Level, bool) {
	saved := slog.Default()
	silent := slog.New("silent").SetLevel(slog.OffLevel)
	slog.SetDefault(silent)
	defer slog.SetDefault(saved)
	l, err := slog.ParseLevel(s)
	return l, err == nil
}

// probeRecord emits one record at level l through an entry point that takes a level value (0 LogAttrs, 1 Logit,
// 2 the std log bridge NewLogLogger(logger, l).Print) on a logfmt logger and reports where it went and what its level
// field says.
func (w *world) routedToError(l slog.Level) bool {
	toErr, _, _ := w.probeRecord(l, 0)
	return toErr
}

func (w *world) probeRecord(l slog.Level, via int) (toError bool, levelField string, records int) {
	log := vlib.NewEventLog()
	nw, ew := vlib.NewRec(log, 1, 0), vlib.NewRec(log, 2, 0)
	lg := slog.New("route").SetWriter(nw).SetErrorWriter(ew).SetLevel(slog.AlwaysLevel).SetColorMode(false)
	switch via {
	case 1:
		lg.Logit(context.Background(), l, "route probe")
	case 2:
		slog.NewLogLogger(lg, l).Print("route probe")
	default:
		lg.LogAttrs(context.Background(), l, "route probe")
	}
	ws := log.Writes()
	for _, e := range ws {
		toError = e.W == 2
		if pairs, err := vlib.ParseLogfmtRecord(e.Payload); err == nil {
			for _, p := range pairs {
				if p.Key == "level" {
					levelField = p.Str
				}
			}
		}
		break
	}
	return toError, levelField, len(ws)
}

// checkLevel verifies all per-level clauses for a known level.
func (w *world) checkLevel(l slog.Level) {
	t := w.t
	name := l.String()
	want, isBuiltin := vlib.BuiltinNames[l]
	if !isBuiltin {
		want = w.reg[int(l)].Title
	}
	if name != want {
		t.Fatalf("C17 after [%s]: Level(%d).String() = %q, want %q", w.history(), int(l), name, want)
	}
	if got, ok := quietParse(name); !ok || got != l {
		vlib.Discrep(t, "C17/parse-roundtrip", "C17 after [%s]: ParseLevel(%q) = (%d, ok=%v), want %d - the printed name does not parse back", w.history(), name, int(got), ok, int(l))
	}
	// text round trip
	mt, err := l.MarshalText()
	if err != nil {
		t.Fatalf("C17 after [%s]: Level(%d).MarshalText failed: %v", w.history(), int(l), err)
	}
	var l2 slog.Level = -12345
	if err := unmarshalTextQuiet(&l2, mt); err != nil || l2 != l {
		vlib.Discrep(t, "C17/text-roundtrip", "C17 after [%s]: UnmarshalText(MarshalText(%d)=%q) = (%d, %v)", w.history(), int(l), mt, int(l2), err)
	}
	// the returned slice belongs to the caller: whatever they do to it, the next result is the name again
	wantT := string(mt)
	for i := range mt {
		mt[i] = '.'
	}
	if again, err := l.MarshalText(); err != nil || string(again) != wantT {
		vlib.Discrep(t, "C17/text-roundtrip", "C17 after [%s]: MarshalText(%d) gives %q (%v) after the caller wrote into the slice returned by the previous call; it gave %q before", w.history(), int(l), again, err, wantT)
	}
	// JSON round trips: direct and inside a struct through encoding/json
	mj, err := l.MarshalJSON()
	if err != nil {
		t.Fatalf("C17 after [%s]: Level(%d).MarshalJSON failed: %v", w.history(), int(l), err)
	}
	var l3 slog.Level = -12345
	if err := unmarshalJSONQuiet(&l3, mj); err != nil || l3 != l {
		vlib.Discrep(t, "C17/json-roundtrip", "C17 after [%s]: UnmarshalJSON(MarshalJSON(%d)=%s) = (%d, %v)", w.history(), int(l), mj, int(l3), err)
	}
	wantJ := string(mj)
	for i := range mj {
		mj[i] = '.'
	}
	if again, err := l.MarshalJSON(); err != nil || string(again) != wantJ {
		vlib.Discrep(t, "C17/json-roundtrip", "C17 after [%s]: MarshalJSON(%d) gives %s (%v) after the caller wrote into the slice returned by the previous call; it gave %s before", w.history(), int(l), again, err, wantJ)
	}
	type holder struct {
		L slog.Level `json:"l"`
	}
	b, err := json.Marshal(holder{l})
	if err != nil {
		vlib.Discrep(t, "C17/json-roundtrip", "C17 after [%s]: json.Marshal of a struct holding level %d failed: %v", w.history(), int(l), err)
	} else {
		var h holder
		h.L = -12345
		if err := jsonUnmarshalQuiet(b, &h); err != nil || h.L != l {
			vlib.Discrep(t, "C17/json-roundtrip", "C17 after [%s]: json round trip of level %d via %s gives (%d, %v)", w.history(), int(l), b, int(h.L), err)
		}
	}
	// short tags
	spec, registered := w.reg[int(l)]
	for n := 1; n <= 5; n++ {
		tag := safeShortTag(l, n)
		switch {
		case registered && spec.HasTags && spec.Tags[n] != "":
			if tag != spec.Tags[n] {
				t.Fatalf("C17 after [%s]: Level(%d).ShortTag(%d) = %q, want the registered tag %q", w.history(), int(l), n, tag, spec.Tags[n])
			}
		case registered:
			if len(tag) != n {
				t.Fatalf("C17 after [%s]: Level(%d).ShortTag(%d) = %q: a level without custom tag must give exactly %d characters", w.history(), int(l), n, tag, n)
			}
		default: // built-in
			if len(tag) != n {
				t.Fatalf("C17 after [%s]: built-in Level(%d).ShortTag(%d) = %q: want exactly %d characters", w.history(), int(l), n, tag, n)
			}
		}
	}
	// gating as the treated-as level, routing to the error device iff requested
	for _, L := range []slog.Level{slog.ErrorLevel, slog.InfoLevel, slog.TraceLevel, slog.OKLevel} {
		lg := slog.New("gate").SetLevel(L)
		if got, want := lg.Enabled(l), w.model.Admit(L, l, is.DebugMode()); got != want {
			t.Fatalf("C17 after [%s]: logger at %v: Enabled(%d) = %v, model (treated-as/numeric) says %v", w.history(), L, int(l), got, want)
		}
	}
	if l != slog.OffLevel {
		for via, ep := range []string{"LogAttrs", "Logit", "NewLogLogger(logger, level).Print"} {
			toErr, field, n := w.probeRecord(l, via)
			if n != 1 {
				t.Fatalf("C17 after [%s]: a record at level %d issued through %s on a logger at Always: %d records written", w.history(), int(l), ep, n)
			}
			if want := w.model.ErrorClass(l); toErr != want {
				t.Fatalf("C17 after [%s]: record at level %d (issued through %s) routed to the error writers = %v, want %v", w.history(), int(l), ep, toErr, want)
			}
			if field != want {
				t.Fatalf("C17 after [%s]: record at level %d (issued through %s) says level=%q: the level does not answer to its title %q", w.history(), int(l), ep, field, want)
			}
		}
	}
}

func withSilentDefault(f func()) {
	saved := slog.Default()
	slog.SetDefault(slog.New("silent").SetLevel(slog.OffLevel))
	defer slog.SetDefault(saved)
	f()
}

func unmarshalTextQuiet(l *slog.Level, b []byte) (err error) {
	withSilentDefault(func() { err = l.UnmarshalText(b) })
	return
}
func unmarshalJSONQuiet(l *slog.Level, b []byte) (err error) {
	withSilentDefault(func() { err = l.UnmarshalJSON(b) })
	return
}
func jsonUnmarshalQuiet(b []byte, v any) (err error) {
	withSilentDefault(func() { err = json.Unmarshal(b, v) })
	return
}

func (w *world) register(r regSpec) {
	t := w.t
	w.hist = append(w.hist, r.String())
	valueUsed := w.values[r.Value]
	titleUsedExact := false
	for _, s := range builtinTitles {
		if s == r.Title {
			titleUsedExact = true
		}
	}
	for _, k := range w.reg {
		if k.Title == r.Title {
			titleUsedExact = true
		}
	}
	titleUsedCI := w.titlesCI[strings.ToLower(r.Title)]
	before := w.fingerprint([]slog.Level{slog.Level(r.Value)}, []string{r.Title})

	var opts []slog.RegOpt
	if r.HasTags {
		opts = append(opts, slog.RegWithShortTags(r.Tags))
	}
	if r.Color {
		opts = append(opts, slog.RegWithColor(color.FgWhite, color.BgUnderline))
	}
	if r.TreatAs >= 0 {
		opts = append(opts, slog.RegWithTreatedAsLevel(slog.Level(r.TreatAs)))
	}
	switch {
	case r.ErrDev && r.ErrDevForm == 1:
		opts = append(opts, slog.RegWithPrintToErrorDevice())
	case r.ErrDev && r.ErrDevForm == 2:
		opts = append(opts, slog.RegWithPrintToErrorDevice(false, true))
	case r.ErrDev:
		opts = append(opts, slog.RegWithPrintToErrorDevice(true))
	case r.ErrDevForm == 1:
		opts = append(opts, slog.RegWithPrintToErrorDevice(false))
	case r.ErrDevForm == 2:
		opts = append(opts, slog.RegWithPrintToErrorDevice(true, false))
	}
	err := slog.RegisterLevel(slog.Level(r.Value), r.Title, opts...)

	mustRefuse := valueUsed || titleUsedExact
	mayRefuse := mustRefuse || titleUsedCI // a title differing only by case: either outcome is accepted
	switch {
	case err == nil && mustRefuse:
		t.Fatalf("C17 after [%s]: registration accepted although value-in-use=%v title-in-use=%v", w.history(), valueUsed, titleUsedExact)
	case err != nil && !mayRefuse:
		t.Fatalf("C17 after [%s]: registration refused (%v) although neither the value nor the title is in use", w.history(), err)
	}
	if err != nil {
		w.labels["refused"] = true
		if titleUsedCI && !titleUsedExact && !valueUsed {
			w.labels["refused-case-variant"] = true
		}
		after := w.fingerprint([]slog.Level{slog.Level(r.Value)}, []string{r.Title})
		if before != after {
			t.Fatalf("C17 after [%s]: a refused registration changed the observable state:\nbefore: %s\nafter:  %s", w.history(), before, after)
		}
		return
	}
	if titleUsedCI {
		w.labels["accepted-case-variant"] = true
	}
	w.labels["registered"] = true
	w.values[r.Value] = true
	w.titlesCI[strings.ToLower(r.Title)] = true
	w.reg[r.Value] = r
	var ta *slog.Level
	if r.TreatAs >= 0 {
		l := slog.Level(r.TreatAs)
		ta = &l
	}
	w.model.Register(slog.Level(r.Value), r.Title, ta, r.ErrDev)
	// everything known so far must still hold (the new level and all older ones)
	for _, l := range w.allKnown() {
		w.checkLevel(l)
	}
	found := false
	for _, l := range slog.AllLevels() {
		if l == slog.Level(r.Value) {
			found = true
		}
	}
	if !found {
		t.Fatalf("C17 after [%s]: AllLevels() does not list the registered level %d", w.history(), r.Value)
	}
}

func genTitle(t *rapid.T, w *world) string {
	switch rapid.IntRange(0, 9).Draw(t, "titleKind") {
	case 0: // a built-in name or alias in some case
		s := rapid.SampledFrom(builtinTitles).Draw(t, "builtinTitle")
		return recase(t, s)
	case 1: // a previously registered title in another case
		if len(w.reg) > 0 {
			var ts []string
			for _, r := range w.reg {
				ts = append(ts, r.Title)
			}
			sort.Strings(ts)
			return recase(t, rapid.SampledFrom(ts).Draw(t, "oldTitle"))
		}
	}
	return rapid.OneOf(rapid.StringMatching(`[a-z]{1,12}`), rapid.StringMatching(`[A-Z]{1,12}`), rapid.StringMatching(`[A-Za-z]{1,12}`),
		rapid.SampledFrom([]string{"NOTICE", "Notice", "notice", "SWELL", "swell", "v", "VV", "Hint"}),
		// titles with ASCII punctuation that the marshalled forms have to escape
		rapid.StringMatching(`[A-Za-z]{1,4}["\\'./_:-][A-Za-z"\\]{0,4}`),
		// titles with control characters or non-ASCII text (valid UTF-8: RegisterLevel accepts them like any other)
		rapid.SampledFrom([]string{"a\x01b", "bell\a", "del\x7f", "esc\x1b[31m", "nul\x00", "cr\rlf\n", "\u00fcn\u00efc\u00f6de", "sep\u2028x", "\u00adsoft", "<tag>&"}),
		// titles padded with a blank (a cheap way to get fixed-width tags)
		rapid.StringMatching(`( [A-Za-z]{1,5}|[A-Za-z]{1,5} | [A-Za-z]{1,4} |[A-Za-z]{1,3} [A-Za-z]{1,3})`)).Draw(t, "title")
}

func recase(t *rapid.T, s string) string {
	switch rapid.IntRange(0, 3).Draw(t, "recase") {
	case 0:
		return s
	case 1:
		return strings.ToUpper(s)
	case 2:
		return strings.ToUpper(s[:1]) + s[1:]
	}
	b := []byte(s)
	for i := range b {
		if rapid.Bool().Draw(t, "up") {
			b[i] = strings.ToUpper(string(b[i]))[0]
		}
	}
	return string(b)
}

func genSpec(t *rapid.T, w *world) regSpec {
	var r regSpec
	r.Value = rapid.OneOf(rapid.IntRange(12, 40), rapid.IntRange(0, 11), rapid.IntRange(-20, -1),
		rapid.SampledFrom([]int{12, 13, 1000, math.MaxInt32, math.MaxInt64, math.MinInt64})).Draw(t, "value")
	r.Title = genTitle(t, w)
	if rapid.Bool().Draw(t, "hasTags") {
		r.HasTags = true
		full := strings.ToUpper(r.Title + "XXXXX")
		for n := 1; n <= 5; n++ {
			switch rapid.IntRange(0, 5).Draw(t, "tagShape") {
			case 0: // no tag for this width
			case 1: // a given tag is used as given, whatever its length
				r.Tags[n] = full[:rapid.IntRange(1, len(full)).Draw(t, "tagLen")]
			default:
				r.Tags[n] = full[:n]
			}
		}
	}
	r.Color = rapid.Bool().Draw(t, "color")
	r.TreatAs = -1
	if rapid.Bool().Draw(t, "hasTreatAs") {
		r.TreatAs = rapid.IntRange(0, 6).Draw(t, "treatAs")
	}
	r.ErrDev = rapid.Bool().Draw(t, "errdev")
	r.ErrDevForm = rapid.IntRange(0, 2).Draw(t, "errdevForm")
	return r
}

func TestRegistryHistories(t *testing.T) {
	rapid.Check(t, func(t *rapid.T) {
		defer vlib.Canon()()
		w := newWorld(t)
		n := rapid.IntRange(1, 8).Draw(t, "steps")
		for i := 0; i < n; i++ {
			if rapid.IntRange(0, 3).Draw(t, "lookup") == 0 {
				ls := w.allKnown()
				l := ls[rapid.IntRange(0, len(ls)-1).Draw(t, "level")]
				w.hist = append(w.hist, fmt.Sprintf("check(%d)", int(l)))
				w.checkLevel(l)
				continue
			}
			w.register(genSpec(t, w))
		}
		key := ""
		if w.labels["refused"] || w.labels["accepted-case-variant"] || w.labels["registered"] {
			key = w.history()
		}
		var ls []string
		for l := range w.labels {
			ls = append(ls, l)
		}
		vlib.Case("TestRegistryHistories", key, ls...)
		if key != "" && vlib.WantSample("TestRegistryHistories") {
			vlib.Sample("TestRegistryHistories", map[string]any{"history": w.hist, "classes": vlib.JoinSorted(w.labels)})
		}
	})
}

// TestBuiltinRoundTrips checks every clause for the 12 built-in levels on a pristine registry.
func TestBuiltinRoundTrips(t *testing.T) {
	defer vlib.Canon()()
	w := newWorld(t)
	for _, l := range vlib.Builtins {
		w.hist = []string{fmt.Sprintf("check(%d)", int(l))}
		w.checkLevel(l)
		vlib.Case("TestBuiltinRoundTrips", fmt.Sprintf("builtin-%d", int(l)), "builtin")
	}
	vlib.Exhaustive("all 12 built-in levels: name/parse, text and JSON round trips, ShortTag(1..5), gating, routing")
}
