// C03 — severity routing and writer-set configuration follow the documented model.
package c03

import (
	"bytes"
	"context"
	"encoding/json"
	"fmt"
	"io"
	"os"
	"os/exec"
	"sort"
	"strings"
	"testing"

	"github.com/hedzr/logg/slog"
	"github.com/hedzr/logg/slog/verifharness/vlib"
	"pgregory.net/rapid"
)

const (
	stdoutID = -1
	stderrID = -2
	nPool    = 6
	custErr  = slog.Level(21) // registered with the error device and a treated-as level
	custStd  = slog.Level(22) // registered with a treated-as level only
	custRaw  = slog.Level(23) // never registered
	custErr2 = slog.Level(24) // registered with the error device only (no treated-as level)
	custNeg  = slog.Level(-7) // negative value, error device only
	custPln  = slog.Level(25) // registered without any option
	custLate = slog.Level(26) // registered for the error device IN THE MIDDLE of a history (step "register"): unregistered before
)

// Step is one operation of a generated history. JSON-encodable so that the
// same history can be executed by a child process.
type Step struct {
	Op     string `json:"op"`               // new | probe | SetWriter | AddWriter | RemoveWriter | SetErrorWriter | AddErrorWriter | RemoveErrorWriter | AddLevelWriter | RemoveLevelWriter | ResetLevelWriter | ResetLevelWriters | ResetWriters
	Logger int    `json:"logger"`           // index of the logger operated on / created
	Parent int    `json:"parent,omitempty"` // for new: -1 root
	W      int    `json:"w,omitempty"`      // pool writer index, -9 = nil writer
	Level  int    `json:"level,omitempty"`
	AsOpt  []Step `json:"opts,omitempty"` // for new: writer operations passed as New(...) options
	Blank  bool   `json:"blank,omitempty"` // for probe: a blank Println() / Print("") at the Always severity (delivered as a bare line break)
	Via    string `json:"via,omitempty"`  // for new with a parent: "" parent.New(name, opts...) | WithSkip | WithLevel | WithAttrs (options applied as methods afterwards)
}

func (s Step) String() string {
	switch s.Op {
	case "new":
		if s.Parent == -2 {
			return fmt.Sprintf("L%d=slog.Default()(ops=%v)", s.Logger, s.AsOpt)
		}
		if s.Via != "" {
			return fmt.Sprintf("L%d=L%d.%s(..)(then=%v)", s.Logger, s.Parent, s.Via, s.AsOpt)
		}
		return fmt.Sprintf("L%d=new(parent=%d,opts=%v)", s.Logger, s.Parent, s.AsOpt)
	case "register":
		return fmt.Sprintf("RegisterLevel(%d, error device)", int(custLate))
	case "probe":
		if s.Blank {
			return fmt.Sprintf("L%d.blankPrintln()", s.Logger)
		}
		return fmt.Sprintf("L%d.probe(%d)", s.Logger, s.Level)
	case "AddLevelWriter", "RemoveLevelWriter":
		return fmt.Sprintf("L%d.%s(%d,w%d)", s.Logger, s.Op, s.Level, s.W)
	case "ResetLevelWriter":
		return fmt.Sprintf("L%d.%s(%d)", s.Logger, s.Op, s.Level)
	case "ResetLevelWriters", "ResetWriters":
		return fmt.Sprintf("L%d.%s()", s.Logger, s.Op)
	}
	return fmt.Sprintf("L%d.%s(w%d)", s.Logger, s.Op, s.W)
}

// Obs is what executing one step produced.
type Obs struct {
	Panic  string   `json:"panic,omitempty"`
	Skip   bool     `json:"skip,omitempty"` // probe not executed (in-process run, logger still on the process-wide default writer)
	Token  string   `json:"token,omitempty"`
	Events []ObsEvt `json:"events,omitempty"` // pool-writer events during a probe
}
type ObsEvt struct {
	W     int    `json:"w"`
	Kind  string `json:"kind"`
	Level int    `json:"level"`
	Tok   bool   `json:"tok"`
	NL    bool   `json:"nl"`
}

// ---------- interpreter: runs a history against the real package ----------

func registerCustom() {
	_ = slog.RegisterLevel(custErr, "custerr", slog.RegWithTreatedAsLevel(slog.InfoLevel), slog.RegWithPrintToErrorDevice(true))
	_ = slog.RegisterLevel(custStd, "custstd", slog.RegWithTreatedAsLevel(slog.ErrorLevel))
	_ = slog.RegisterLevel(custErr2, "custerrtwo", slog.RegWithPrintToErrorDevice(true))
	_ = slog.RegisterLevel(custNeg, "custneg", slog.RegWithPrintToErrorDevice(true))
	_ = slog.RegisterLevel(custPln, "custplain")
}

// failingWriter: pool index of a writer whose Write always returns an error (-1: none). Routing must not
// depend on whether some destination fails (the reaction to failures itself is property C13).
var failingWriter = -1

var caseSerial int

func interp(script []Step, skipUngiven bool) (obs []Obs) {
	caseSerial++
	given := map[int]bool{}
	defer vlib.Canon()()
	registerCustom()
	log := vlib.NewEventLog()
	if fw := failingWriter; fw >= 0 {
		log.Fault = func(w, _ int, p []byte) (int, error) {
			if w == fw {
				return 0, vlib.ErrInjected
			}
			return len(p), nil
		}
	}
	pool := make([]vlib.Writer, nPool)
	for i := range pool {
		pool[i] = vlib.NewRec(log, i, i) // kinds cycle: plain, closer, level-settable, closer+level-settable, plain, closer
	}
	// pool member 4 is handed over as the handle slog.NewLogWriter returns for it (the same handle in every
	// operation): a writer a user registers - and later removes - through the package's own wrapper
	handle4 := slog.NewLogWriter(pool[4].(io.Writer))
	handle2 := slog.NewLogWriter(pool[2].(io.Writer))
	wr := func(i int) io.Writer {
		if i == -9 {
			return nil
		}
		if i == 4 {
			return handle4
		}
		if i == 0 && caseSerial%3 == 0 {
			return vlib.ValueWriter{W: pool[0]} // a writer of a value type: every operation gets another (equal) copy
		}
		if i == 2 && caseSerial%2 == 1 {
			return handle2 // the level-settable member behind the package's wrapper: it must still be told the severity
		}
		return pool[i].(io.Writer)
	}
	loggers := map[int]slog.Logger{}
	touchedDefault := false
	defer func() {
		if touchedDefault {
			d := slog.Default()
			d.ResetWriters() // standard devices again, no per-level writers
			d.SetColorMode(true)
		}
	}()
	apply := func(lg slog.Logger, s Step) {
		switch s.Op {
		case "SetWriter":
			lg.SetWriter(wr(s.W))
		case "AddWriter":
			lg.AddWriter(wr(s.W))
		case "RemoveWriter":
			lg.RemoveWriter(wr(s.W))
		case "SetErrorWriter":
			lg.SetErrorWriter(wr(s.W))
		case "AddErrorWriter":
			lg.AddErrorWriter(wr(s.W))
		case "RemoveErrorWriter":
			lg.RemoveErrorWriter(wr(s.W))
		case "AddLevelWriter":
			lg.AddLevelWriter(slog.Level(s.Level), wr(s.W))
		case "RemoveLevelWriter":
			lg.RemoveLevelWriter(slog.Level(s.Level), wr(s.W))
		case "ResetLevelWriter":
			lg.ResetLevelWriter(slog.Level(s.Level))
		case "ResetLevelWriters":
			lg.ResetLevelWriters()
		case "ResetWriters":
			lg.ResetWriters()
		}
	}
	toOpt := func(s Step) any {
		switch s.Op {
		case "SetWriter":
			return slog.WithWriter(wr(s.W))
		case "AddWriter":
			return slog.AddWriter(wr(s.W))
		case "SetErrorWriter":
			return slog.WithErrorWriter(wr(s.W))
		case "AddErrorWriter":
			return slog.AddErrorWriter(wr(s.W))
		case "AddLevelWriter":
			return slog.AddLevelWriter(slog.Level(s.Level), wr(s.W))
		case "RemoveLevelWriter":
			return slog.RemoveLevelWriter(slog.Level(s.Level), wr(s.W))
		case "ResetLevelWriter":
			return slog.ResetLevelWriter(slog.Level(s.Level))
		case "ResetLevelWriters":
			return slog.ResetLevelWriters()
		case "ResetWriters":
			return slog.ResetWriters()
		}
		panic("no option form for " + s.Op)
	}
	for n, s := range script {
		var o Obs
		func() {
			defer func() {
				if p := recover(); p != nil {
					o.Panic = fmt.Sprint(p)
				}
			}()
			switch s.Op {
			case "new":
				// names are unique per case: the default logger keeps its children for the life of the process
				args := []any{fmt.Sprintf("lg%d_%d", s.Logger, caseSerial), slog.WithLevel(slog.AlwaysLevel), slog.WithColorMode(false)}
				for _, os := range s.AsOpt {
					args = append(args, toOpt(os))
					given[s.Logger] = true
				}
				if s.Parent == -2 {
					// the package's default logger itself (its level is put back at the end of the case by Canon)
					d := slog.Default()
					d.SetLevel(slog.AlwaysLevel)
					d.SetColorMode(false)
					touchedDefault = true
					for _, os := range s.AsOpt {
						apply(d, os)
					}
					loggers[s.Logger] = d
				} else if s.Parent < 0 {
					loggers[s.Logger] = slog.New(args...)
				} else if s.Via != "" {
					// a child made by a With... method: it starts without writers of its own, like any other child
					var ch slog.Logger
					switch s.Via {
					case "WithSkip":
						ch = loggers[s.Parent].WithSkip(100 + caseSerial*16 + s.Logger) // one child per count is kept by the parent: a count no earlier case used
					case "WithLevel":
						ch = loggers[s.Parent].WithLevel(slog.AlwaysLevel)
					default:
						ch = loggers[s.Parent].WithAttrs(slog.NewAttr("via", s.Logger))
					}
					ch.SetLevel(slog.AlwaysLevel)
					ch.SetColorMode(false)
					for _, os := range s.AsOpt {
						apply(ch, os)
					}
					loggers[s.Logger] = ch
				} else {
					loggers[s.Logger] = loggers[s.Parent].New(args...)
				}
			case "register":
				_ = slog.RegisterLevel(custLate, "custlate", slog.RegWithPrintToErrorDevice(true))
			case "probe":
				if skipUngiven && !given[s.Logger] {
					o.Skip = true
					return
				}
				before := log.Len()
				o.Token = fmt.Sprintf("probe-%d-tok", n)
				if s.Blank {
					if n%2 == 0 {
						loggers[s.Logger].Println()
					} else {
						loggers[s.Logger].Print("")
					}
				} else {
					loggers[s.Logger].LogAttrs(context.Background(), slog.Level(s.Level), o.Token)
				}
				for _, e := range log.Snapshot()[before:] {
					tok := bytes.Contains(e.Payload, []byte(o.Token))
					if s.Blank {
						tok = string(e.Payload) == "\n" // the blank line is the record
					}
					o.Events = append(o.Events, ObsEvt{W: e.W, Kind: e.Kind, Level: int(e.Level),
						Tok: tok, NL: bytes.HasSuffix(e.Payload, []byte("\n"))})
				}
			default:
				if s.Op != "RemoveWriter" && s.Op != "RemoveErrorWriter" {
					given[s.Logger] = true
				}
				apply(loggers[s.Logger], s)
			}
		}()
		obs = append(obs, o)
	}
	return obs
}

// ---------- reference model ----------

type wset struct {
	normal, errw []int
	leveled      map[int][]int
}

func newWset() *wset {
	return &wset{normal: []int{stdoutID}, errw: []int{stderrID}, leveled: map[int][]int{}}
}

func removeFirst(l []int, w int) []int {
	for i, x := range l {
		if x == w {
			return append(append([]int(nil), l[:i]...), l[i+1:]...)
		}
	}
	return l
}

func (m *wset) apply(s Step) {
	nilw := s.W == -9
	switch s.Op {
	case "SetWriter":
		if !nilw {
			m.normal = []int{s.W}
		}
	case "AddWriter":
		if !nilw {
			m.normal = append(m.normal, s.W)
		}
	case "RemoveWriter":
		if !nilw {
			m.normal = removeFirst(m.normal, s.W)
		}
	case "SetErrorWriter":
		if !nilw {
			m.errw = []int{s.W}
		}
	case "AddErrorWriter":
		if !nilw {
			m.errw = append(m.errw, s.W)
		}
	case "RemoveErrorWriter":
		if !nilw {
			m.errw = removeFirst(m.errw, s.W)
		}
	case "AddLevelWriter":
		if !nilw {
			m.leveled[s.Level] = append(m.leveled[s.Level], s.W)
		}
	case "RemoveLevelWriter":
		if !nilw {
			m.leveled[s.Level] = removeFirst(m.leveled[s.Level], s.W)
		}
	case "ResetLevelWriter":
		delete(m.leveled, s.Level)
	case "ResetLevelWriters":
		m.leveled = map[int][]int{}
	case "ResetWriters":
		m.normal, m.errw, m.leveled = []int{stdoutID}, []int{stderrID}, map[int][]int{}
	}
}

var errorClass = map[int]bool{int(slog.PanicLevel): true, int(slog.FatalLevel): true, int(slog.ErrorLevel): true,
	int(slog.WarnLevel): true, int(slog.FailLevel): true, int(custErr): true, int(custErr2): true, int(custNeg): true}

func (m *wset) dest(level int) []int {
	if level == int(slog.OffLevel) {
		return nil
	}
	if l := m.leveled[level]; len(l) > 0 {
		return l
	}
	if errorClass[level] || (level == int(custLate) && lateRegistered) {
		return m.errw
	}
	return m.normal
}

// lateRegistered: the walk over a history has passed its "register" step (custLate counts as error class from there on).
var lateRegistered bool

// dupOK: got deliveries for a writer that the model lists c times (see the duplicate-registration note in verify).
func dupOK(got, c int) bool { return got == c || (c > 1 && got == 1) }

func count(l []int, w int) (n int) {
	for _, x := range l {
		if x == w {
			n++
		}
	}
	return
}

// ---------- comparison ----------

type stdObs struct {
	known    bool // std streams observable for this probe
	out, err int  // number of records carrying the token
}

func settable(w int) bool { return w >= 0 && (w%4 == 2 || w%4 == 3) }

// verify walks the history with the model and compares with the observations.
// stdCount returns the std-stream observation for the probe at step n.
func verify(t vlib.TB, script []Step, obs []Obs, stdCount func(n int, tok string, everGiven bool) stdObs) (labels map[string]bool) {
	labels = map[string]bool{}
	models := map[int]*wset{}
	given := map[int]bool{}
	lateRegistered = false
	defer func() { lateRegistered = false }()
	hist := func(n int) string {
		var parts []string
		for _, s := range script[:n+1] {
			parts = append(parts, s.String())
		}
		return strings.Join(parts, "; ")
	}
	for n, s := range script {
		o := obs[n]
		if o.Panic != "" {
			vlib.Discrep(t, "C03/panic:"+s.Op, "C03 operation panicked: %s => %s", hist(n), o.Panic)
			return
		}
		switch s.Op {
		case "register":
			lateRegistered = true
			labels["level-registered-after-records"] = true
		case "new":
			models[s.Logger] = newWset()
			for _, os := range s.AsOpt {
				models[s.Logger].apply(os)
				given[s.Logger] = true
				labels["option:"+os.Op] = true
			}
		case "probe":
			if o.Skip {
				labels["probe-skipped-in-process"] = true
				continue
			}
			m := models[s.Logger]
			want := m.dest(s.Level)
			got := map[int]int{}
			for _, e := range o.Events {
				if e.Kind == "write" {
					if !e.Tok && failingWriter >= 0 {
						continue // the diagnostic warning about the failing destination (C13)
					}
					got[e.W]++
					if !e.Tok || !e.NL {
						t.Fatalf("C03 writer w%d received a payload that is not the probe record: %s", e.W, hist(n))
					}
				}
			}
			for w := 0; w < nPool; w++ {
				if c := count(want, w); c > 1 && got[w] == 1 {
					// one writer registered several times in the selected list: the statement speaks of the writer SET
					// ("writers outside the selected set receive nothing"); whether the duplicate registration is kept
					// (one Write per entry) or folded (one Write) it leaves open - at least one, at most one per entry
					labels["duplicate-registration-folded"] = true
				} else if got[w] != c {
					sig := "C03/route"
					vlib.Discrep(t, sig, "C03 after [%s]: writer w%d received %d records, model says %d (model dest=%v; normal=%v error=%v leveled=%v; events=%+v)",
						hist(n), w, got[w], count(want, w), want, m.normal, m.errw, m.leveled, o.Events)
				}
			}
			so := stdCount(n, o.Token, given[s.Logger])
			if so.known && !s.Blank { // a blank line carries no token that could be counted in the standard streams
				if !dupOK(so.out, count(want, stdoutID)) || !dupOK(so.err, count(want, stderrID)) {
					vlib.Discrep(t, "C03/route-std", "C03 after [%s]: stdout got %d and stderr %d records, model says %d and %d (dest=%v)",
						hist(n), so.out, so.err, count(want, stdoutID), count(want, stderrID), want)
				}
				labels["std-observed"] = true
			}
			// severity notification: a LevelSettable destination is told the severity immediately before its Write
			for i, e := range o.Events {
				if e.Kind != "write" || !settable(e.W) {
					continue
				}
				if !e.Tok && failingWriter >= 0 {
					continue // the diagnostic warning is announced at its own severity
				}
				ok := false
				// all events of a probe belong to one record; a writer listed twice gets two
				// Writes of that record, which may share one notification
				for j := i - 1; j >= 0; j-- {
					if o.Events[j].W == e.W && o.Events[j].Kind != "write" {
						ok = o.Events[j].Kind == "setlevel" && o.Events[j].Level == s.Level
						break
					}
				}
				if !ok {
					vlib.Discrep(t, "C03/notify", "C03 after [%s]: LevelSettable destination w%d was not told severity %d immediately before its Write (events=%+v)",
						hist(n), e.W, s.Level, o.Events)
				}
				labels["notified-dest"] = true
			}
			switch {
			case s.Level == int(slog.OffLevel):
				labels["probe:off"] = true
			case len(m.leveled[s.Level]) > 0:
				labels["probe:per-level"] = true
			case s.Level >= int(custErr) || s.Level < 0:
				labels["probe:custom"] = true
			case errorClass[s.Level]:
				labels["probe:error-class"] = true
			default:
				labels["probe:normal"] = true
			}
		default:
			m := models[s.Logger]
			if strings.HasPrefix(s.Op, "Remove") || strings.HasPrefix(s.Op, "Reset") {
				before := fmt.Sprint(m.normal, m.errw, m.leveled)
				m.apply(s)
				if before != fmt.Sprint(m.normal, m.errw, m.leveled) {
					labels["effective-"+strings.ToLower(s.Op[:5])] = true
				} else {
					labels["noop-"+strings.ToLower(s.Op[:5])] = true
				}
			} else {
				m.apply(s)
			}
			if !(s.Op == "RemoveWriter" || s.Op == "RemoveErrorWriter") || given[s.Logger] {
				given[s.Logger] = true
			}
			if s.W == -9 {
				labels["nil-writer"] = true
			}
		}
	}
	return labels
}

// ---------- generation ----------

var writerOps = []string{"SetWriter", "AddWriter", "RemoveWriter", "SetErrorWriter", "AddErrorWriter", "RemoveErrorWriter",
	"AddLevelWriter", "RemoveLevelWriter", "ResetLevelWriter", "ResetLevelWriters", "ResetWriters"}
var optionOps = []string{"SetWriter", "AddWriter", "SetErrorWriter", "AddErrorWriter", "AddLevelWriter", "RemoveLevelWriter",
	"ResetLevelWriter", "ResetLevelWriters", "ResetWriters"}

var probeLevels = []int{0, 1, 2, 3, 4, 5, 6, 7, 8, 9, 10, 11, int(custErr), int(custStd), int(custRaw), int(custErr2), int(custNeg), int(custPln), int(custLate)}
var levelWriterLevels = []int{int(slog.ErrorLevel), int(slog.InfoLevel), int(slog.WarnLevel), int(slog.DebugLevel), int(slog.OKLevel), int(slog.FailLevel), int(custErr), int(custStd), int(custRaw), int(slog.OffLevel)}

// genScript draws a history. Removes are only drawn for writers that occur at most
// once in the addressed list (the statement does not say what removing a duplicate does).
func genScript(t *rapid.T, maxLoggers, maxSteps int) []Step {
	var script []Step
	models := map[int]*wset{}
	nLoggers := 0
	newLogger := func() {
		s := Step{Op: "new", Logger: nLoggers, Parent: -1}
		if nLoggers == 0 && rapid.IntRange(0, 3).Draw(t, "useDefaultLogger") == 0 {
			s.Parent = -2 // operate on the package's default logger: other loggers must not notice
		} else if nLoggers > 0 && rapid.Bool().Draw(t, "child") {
			s.Parent = rapid.IntRange(0, nLoggers-1).Draw(t, "parent")
			s.Via = rapid.SampledFrom([]string{"", "", "WithSkip", "WithLevel", "WithAttrs"}).Draw(t, "via")
		}
		m := newWset()
		if rapid.IntRange(0, 2).Draw(t, "withOpts") == 0 {
			k := rapid.IntRange(1, 4).Draw(t, "nopts")
			for i := 0; i < k; i++ {
				os := genWriterOp(t, optionOps, nLoggers, m)
				if os.Op != "" {
					s.AsOpt = append(s.AsOpt, os)
					m.apply(os)
				}
			}
		}
		models[nLoggers] = m
		script = append(script, s)
		nLoggers++
	}
	newLogger()
	n := rapid.IntRange(1, maxSteps).Draw(t, "steps")
	lateDone := false
	var givenGen []int // loggers that were given a writer by some step so far
	for i, st := range script {
		if len(st.AsOpt) > 0 {
			givenGen = append(givenGen, i)
		}
	}
	for i := 0; i < n; i++ {
		if !lateDone && rapid.IntRange(0, 11).Draw(t, "registerALevelNow") == 0 {
			// a level is registered for the error device while loggers have records behind them: a record at it goes to
			// the normal writers before and to the error writers after, on every logger
			lg := rapid.IntRange(0, nLoggers-1).Draw(t, "logger")
			if len(givenGen) > 0 && rapid.IntRange(0, 3).Draw(t, "onALoggerWithWritersOfItsOwn") != 0 {
				lg = givenGen[rapid.IntRange(0, len(givenGen)-1).Draw(t, "givenLogger")] // in-process probes of loggers still on the standard streams are skipped
			}
			script = append(script, Step{Op: "probe", Logger: lg, Level: int(custLate)}, Step{Op: "register"}, Step{Op: "probe", Logger: lg, Level: int(custLate)})
			lateDone = true
			continue
		}
		switch k := rapid.IntRange(0, 9).Draw(t, "what"); {
		case k == 0 && nLoggers < maxLoggers:
			newLogger()
		case k <= 3:
			lg := rapid.IntRange(0, nLoggers-1).Draw(t, "logger")
			if rapid.IntRange(0, 7).Draw(t, "blankProbe") == 0 {
				script = append(script, Step{Op: "probe", Logger: lg, Level: int(slog.AlwaysLevel), Blank: true})
				break
			}
			script = append(script, Step{Op: "probe", Logger: lg, Level: rapid.SampledFrom(probeLevels).Draw(t, "severity")})
		default:
			lg := rapid.IntRange(0, nLoggers-1).Draw(t, "logger")
			s := genWriterOp(t, writerOps, lg, models[lg])
			if s.Op != "" {
				// a third of the operations are sandwiched between two probes of one severity on that logger
				// (whatever the routing remembered for that severity must not survive the operation)
				sandwich := rapid.IntRange(0, 2).Draw(t, "probeBeforeAndAfter") == 0
				sev := rapid.SampledFrom(probeLevels).Draw(t, "sandwichSeverity")
				if sandwich {
					script = append(script, Step{Op: "probe", Logger: lg, Level: sev})
				}
				script = append(script, s)
				models[lg].apply(s)
				if !strings.HasPrefix(s.Op, "Remove") && !strings.HasPrefix(s.Op, "Reset") {
					givenGen = append(givenGen, lg)
				}
				if sandwich {
					script = append(script, Step{Op: "probe", Logger: lg, Level: sev})
				}
			}
		}
	}
	// always end with a probe of every logger at three severity classes
	for lg := 0; lg < nLoggers; lg++ {
		for _, lvl := range []int{int(slog.InfoLevel), int(slog.ErrorLevel), rapid.SampledFrom(probeLevels).Draw(t, "finalSeverity")} {
			script = append(script, Step{Op: "probe", Logger: lg, Level: lvl})
		}
	}
	return script
}

func genWriterOp(t *rapid.T, ops []string, lg int, m *wset) Step {
	s := Step{Op: rapid.SampledFrom(ops).Draw(t, "op"), Logger: lg}
	pickW := func() int {
		if rapid.IntRange(0, 19).Draw(t, "nilw") == 0 {
			return -9
		}
		return rapid.IntRange(0, nPool-1).Draw(t, "w")
	}
	switch s.Op {
	case "ResetLevelWriters", "ResetWriters":
	case "ResetLevelWriter":
		s.Level = rapid.SampledFrom(levelWriterLevels).Draw(t, "lvl")
	case "AddLevelWriter":
		s.Level = rapid.SampledFrom(levelWriterLevels).Draw(t, "lvl")
		s.W = pickW()
	case "RemoveLevelWriter":
		s.Level = rapid.SampledFrom(levelWriterLevels).Draw(t, "lvl")
		s.W = pickW()
		if s.W >= 0 && count(m.leveled[s.Level], s.W) > 1 {
			return Step{}
		}
	case "RemoveWriter":
		s.W = pickW()
		if s.W >= 0 && count(m.normal, s.W) > 1 {
			return Step{}
		}
	case "RemoveErrorWriter":
		s.W = pickW()
		if s.W >= 0 && count(m.errw, s.W) > 1 {
			return Step{}
		}
	default:
		s.W = pickW()
	}
	return s
}

func classify(test string, script []Step, labels map[string]bool) {
	ops := map[string]bool{}
	var seq []string
	for _, s := range script {
		ops[s.Op] = true
		seq = append(seq, s.Op)
	}
	nontrivial := labels["effective-remov"] || labels["effective-reset"] || labels["probe:per-level"] || labels["probe:custom"]
	key := ""
	if nontrivial {
		key = strings.Join(seq, ",") + "|" + vlib.JoinSorted(labels)
	}
	var ls []string
	for l := range labels {
		ls = append(ls, l)
	}
	sort.Strings(ls)
	vlib.Case(test, key, ls...)
	if key != "" && vlib.WantSample(test) {
		var parts []string
		for _, s := range script {
			parts = append(parts, s.String())
		}
		vlib.Sample(test, map[string]any{"history": parts, "classes": ls})
	}
}

// ---------- in-process check: std streams observed through swapped os.Stdout/os.Stderr ----------

var capOut, capErr *os.File

func TestMain(m *testing.M) {
	vlib.MainWithChild(m, childMain)
}

func newBytes(f *os.File, from int64) []byte {
	st, err := f.Stat()
	if err != nil || st.Size() <= from {
		return nil
	}
	b := make([]byte, st.Size()-from)
	_, _ = f.ReadAt(b, from)
	return b
}

func TestRoutingHistories(t *testing.T) {
	dir := t.TempDir()
	var err error
	if capOut, err = os.Create(dir + "/stdout"); err != nil {
		t.Fatal(err)
	}
	if capErr, err = os.Create(dir + "/stderr"); err != nil {
		t.Fatal(err)
	}
	realOut, realErr := os.Stdout, os.Stderr
	defer func() { os.Stdout, os.Stderr = realOut, realErr }()

	rapid.Check(t, func(t *rapid.T) {
		script := genScript(t, 3, 30)
		failingWriter = -1
		if rapid.IntRange(0, 4).Draw(t, "aWriterFails") == 0 {
			failingWriter = rapid.IntRange(0, nPool-1).Draw(t, "failingWriter")
		}
		defer func() { failingWriter = -1 }()
		// every per-logger default list created from now on points at the capture files
		os.Stdout, os.Stderr = capOut, capErr
		o0, _ := capOut.Seek(0, io.SeekEnd)
		e0, _ := capErr.Seek(0, io.SeekEnd)
		obs := interp(script, true)
		os.Stdout, os.Stderr = realOut, realErr
		outB, errB := newBytes(capOut, o0), newBytes(capErr, e0)
		labels := verify(t, script, obs, func(n int, tok string, everGiven bool) stdObs {
			if !everGiven {
				// a logger never given writers goes to the package default writer created at
				// init time (the real stdout/stderr): observed by the child-process check.
				return stdObs{}
			}
			return stdObs{known: true, out: bytes.Count(outB, []byte(tok)), err: bytes.Count(errB, []byte(tok))}
		})
		if failingWriter >= 0 {
			labels["a-destination-fails"] = true
		}
		classify("TestRoutingHistories", script, labels)
		if st, _ := capOut.Stat(); st != nil && st.Size() > 32<<20 {
			_ = capOut.Truncate(0)
			_ = capErr.Truncate(0)
		}
	})
}

// ---------- child-process check: the real stdout/stderr fall-back ----------

func childMain(scenario string) {
	b, err := os.ReadFile(scenario)
	if err != nil {
		fmt.Fprintln(os.Stderr, "child: ", err)
		os.Exit(4)
	}
	var script []Step
	if err = json.Unmarshal(b, &script); err != nil {
		os.Exit(4)
	}
	obs := interp(script, false)
	out, _ := json.Marshal(obs)
	if err = os.WriteFile(scenario+".obs", out, 0o644); err != nil {
		os.Exit(4)
	}
}

func TestStdFallbackChild(t *testing.T) {
	self := os.Getenv("VERIF_SELF")
	if self == "" {
		self = os.Args[0]
	}
	dir := t.TempDir()
	n := 0
	rapid.Check(t, func(t *rapid.T) {
		script := genScript(t, 2, 12)
		n++
		path := fmt.Sprintf("%s/s%d.json", dir, n)
		b, _ := json.Marshal(script)
		if err := os.WriteFile(path, b, 0o644); err != nil {
			t.Fatalf("harness: %v", err)
		}
		cmd := exec.Command(self, "-test.run", "^$")
		cmd.Env = append(os.Environ(), "VERIF_CHILD="+path, "VERIF_STATS=")
		var so, se bytes.Buffer
		cmd.Stdout, cmd.Stderr = &so, &se
		if err := cmd.Run(); err != nil {
			t.Fatalf("C03 child process running [%v] failed: %v\nstderr: %s", script, err, se.String())
		}
		ob, err := os.ReadFile(path + ".obs")
		if err != nil {
			t.Fatalf("harness: child wrote no observations: %v", err)
		}
		var obs []Obs
		if err = json.Unmarshal(ob, &obs); err != nil || len(obs) != len(script) {
			t.Fatalf("harness: bad observations: %v", err)
		}
		_ = os.Remove(path)
		_ = os.Remove(path + ".obs")
		labels := verify(t, script, obs, func(n int, tok string, everGiven bool) stdObs {
			return stdObs{known: true, out: bytes.Count(so.Bytes(), []byte(tok)), err: bytes.Count(se.Bytes(), []byte(tok))}
		})
		labels["child-process"] = true
		classify("TestStdFallbackChild", script, labels)
	})
}

// TestListDestinations: a destination may itself be a list of writers - that is what GetWriter() and GetWriterBy(l)
// of another logger hand out (child.SetWriter(parent.GetWriter()) makes a child write where its parent writes). Every
// member of such a list is a destination of the record: it gets the record once, and a member that asks to be told
// the severity is told it immediately before its Write.
func TestListDestinations(t *testing.T) {
	rapid.Check(t, func(t *rapid.T) {
		defer vlib.Canon()()
		registerCustom()
		log := vlib.NewEventLog()
		pool := make([]vlib.Writer, 8)
		for i := range pool {
			pool[i] = vlib.NewRec(log, i, i) // kinds cycle: plain, closer, level-settable, closer+level-settable
		}
		lender := slog.New("lender").SetLevel(slog.AlwaysLevel).SetColorMode(false)
		pick := func(label string) []int {
			return rapid.SliceOfNDistinct(rapid.IntRange(0, len(pool)-1), 1, 3, rapid.ID[int]).Draw(t, label)
		}
		normal, errs := pick("lenderNormal"), pick("lenderError")
		for i, w := range normal {
			if i == 0 {
				lender.SetWriter(pool[w])
			} else {
				lender.AddWriter(pool[w])
			}
		}
		for i, w := range errs {
			if i == 0 {
				lender.SetErrorWriter(pool[w])
			} else {
				lender.AddErrorWriter(pool[w])
			}
		}
		lg := slog.New("borrower").SetLevel(slog.AlwaysLevel).SetColorMode(false)
		how := rapid.SampledFrom([]string{"set", "add-after-own", "hand-made"}).Draw(t, "how")
		wantNormal, wantErr := append([]int(nil), normal...), append([]int(nil), errs...)
		switch how {
		case "set":
			lg.SetWriter(lender.GetWriter())
			lg.SetErrorWriter(lender.GetWriterBy(slog.ErrorLevel))
		case "add-after-own":
			own := rapid.IntRange(0, len(pool)-1).Draw(t, "ownWriter")
			lg.SetWriter(pool[own]).SetErrorWriter(pool[own])
			lg.AddWriter(lender.GetWriter())
			lg.AddErrorWriter(lender.GetWriterBy(slog.ErrorLevel))
			wantNormal, wantErr = append([]int{own}, normal...), append([]int{own}, errs...)
		default:
			var ln, le slog.LWs
			for _, w := range normal {
				ln = append(ln, slog.NewLogWriter(pool[w]))
			}
			for _, w := range errs {
				le = append(le, slog.NewLogWriter(pool[w]))
			}
			lg.SetWriter(ln)
			lg.SetErrorWriter(le)
		}
		sevs := []slog.Level{slog.InfoLevel, slog.ErrorLevel, slog.WarnLevel, slog.DebugLevel, slog.AlwaysLevel, slog.FailLevel, slog.OKLevel, custErr, custStd, custPln}
		for n := 0; n < 4; n++ {
			sev := rapid.SampledFrom(sevs).Draw(t, "severity")
			want := wantNormal
			if errorClass[int(sev)] || sev == custErr {
				want = wantErr
			}
			before := log.Len()
			tok := fmt.Sprintf("list-probe-%d-tok", n)
			lg.LogAttrs(context.Background(), sev, tok)
			evs := log.Snapshot()[before:]
			got := map[int]int{}
			for i, e := range evs {
				if e.Kind != "write" {
					continue
				}
				got[e.W]++
				if !bytes.Contains(e.Payload, []byte(tok)) || !bytes.HasSuffix(e.Payload, []byte("\n")) {
					t.Fatalf("C03 list destinations (%s, lender normal=%v error=%v): severity %d: w%d got %q instead of the record", how, normal, errs, int(sev), e.W, e.Payload)
				}
				if !settable(e.W) {
					continue
				}
				told := false
				for j := i - 1; j >= 0; j-- {
					if evs[j].W == e.W && evs[j].Kind != "write" {
						told = evs[j].Kind == "setlevel" && evs[j].Level == sev
						break
					}
				}
				if !told {
					vlib.Discrep(t, "C03/notify", "C03 list destinations (%s, lender normal=%v error=%v): LevelSettable destination w%d inside a writer list was not told severity %d immediately before its Write (events=%v)", how, normal, errs, e.W, int(sev), evs)
				}
			}
			for w := range pool {
				if got[w] != count(want, w) {
					vlib.Discrep(t, "C03/route", "C03 list destinations (%s, lender normal=%v error=%v): severity %d: w%d received the record %d times, want %d (destinations %v)", how, normal, errs, int(sev), w, got[w], count(want, w), want)
				}
			}
		}
		vlib.Case("TestListDestinations", fmt.Sprintf("%s/%v/%v", how, normal, errs), "list-destination/"+how)
	})
}
