// C12 — Panic and Fatal: the record is written first, then the documented termination.
package c12

import (
	"bytes"
	"context"
	"encoding/json"
	"errors"
	"fmt"
	"io"
	"os"
	"os/exec"
	"path/filepath"
	"strconv"
	"strings"
	"sync"
	"testing"

	"github.com/hedzr/logg/slog"
	"github.com/hedzr/logg/slog/verifharness/vlib"
	"pgregory.net/rapid"
)

func TestMain(m *testing.M) { vlib.MainWithChild(m, childMain) }

const custPanicLike = slog.Level(30) // registered, treated as Panic: must never terminate

// Scenario is one cell of the matrix (JSON: executed by a child process).
type Scenario struct {
	EP              string `json:"ep"`
	R               int    `json:"r"`
	L               int    `json:"l"`
	NoInterrupt     bool   `json:"no_interrupt"`
	InterruptAlways bool   `json:"interrupt_always"`
	Format          string `json:"format"`
	Msg             string `json:"msg"`
	Prod            bool   `json:"prod"` // informational: decided by the child's binary name
	// FlagHow: "set" SetFlags(f) | "addremove" AddFlags/RemoveFlags | "scope" inside a SaveFlagsAndMod scope whose
	// outside has the opposite termination flags | "restored" after such a scope was closed again | "redundant" after a
	// closed scope that added flags which were set already
	FlagHow string `json:"flag_how,omitempty"`
	// Dest: "" the harness's own unbuffered file writer (appends a record separator) | "filewriter" the package's
	// slog.NewFileWriter on the same file (child processes only) | "discard" io.Discard (nothing to observe but the
	// termination itself)
	Dest string `json:"dest,omitempty"`
	// Args: the shape of the call's argument list: "" key/value pair | "none" | "attrs" only Attr values | "mixed"
	Args string `json:"args,omitempty"`
	// BenchArg (child processes): the process is started with an additional -test.bench argument (a production
	// binary stays a production process whatever its arguments are)
	BenchArg bool `json:"bench_arg,omitempty"`
}

func callArgs(shape string) []any {
	switch shape {
	case "none":
		return nil
	case "attrs":
		return []any{slog.NewAttr("k", 1), slog.NewAttr("s", "v")}
	case "mixed":
		return []any{"k", 1, slog.NewAttr("s", "v"), slog.Group("g", "a", 1)}
	}
	return []any{"k", 1}
}

var argShapes = []string{"", "", "none", "attrs", "mixed"}

func (s Scenario) String() string {
	return fmt.Sprintf("%s severity=%v logger-level=%v noInterrupt=%v interruptAlways=%v (flags via %q) destination=%q args=%q benchArgument=%v format=%s production=%v msg=%q",
		s.EP, slog.Level(s.R), slog.Level(s.L), s.NoInterrupt, s.InterruptAlways, s.FlagHow, s.Dest, s.Args, s.BenchArg, s.Format, s.Prod, s.Msg)
}

func epByName(name string) *vlib.EntryPoint {
	for _, e := range vlib.EntryPoints {
		if e.Name == name {
			return e
		}
	}
	return nil
}

func levelModel() *vlib.LevelModel {
	m := vlib.NewLevelModel()
	ta := slog.PanicLevel
	m.Register(custPanicLike, "panicky", &ta, true)
	return m
}

func registerCustom() {
	_ = slog.RegisterLevel(custPanicLike, "panicky", slog.RegWithTreatedAsLevel(slog.PanicLevel), slog.RegWithPrintToErrorDevice(true))
}

func expect(s Scenario, prod bool) (admit, terminate bool) {
	m := levelModel()
	admit = m.Admit(slog.Level(s.L), slog.Level(s.R), slog.Level(s.L) == slog.DebugLevel)
	if ep := epByName(s.EP); ep != nil && ep.Kind == "verbose" {
		admit = false
	}
	term := slog.Level(s.R) == slog.PanicLevel || slog.Level(s.R) == slog.FatalLevel
	terminate = admit && term && !s.NoInterrupt && (prod || s.InterruptAlways)
	return
}

func setup(s Scenario, w io.Writer) slog.Logger {
	registerCustom()
	flags := vlib.BaseFlags &^ slog.LnoInterrupt
	if s.NoInterrupt {
		flags |= slog.LnoInterrupt
	}
	if s.InterruptAlways {
		flags |= slog.Linterruptalways
	}
	const tbits = slog.LnoInterrupt | slog.Linterruptalways
	opposite := flags ^ tbits // the other phase has both termination flags inverted
	var restore func()
	switch s.FlagHow {
	case "addremove":
		slog.SetFlags(opposite)
		for _, f := range []slog.Flags{slog.LnoInterrupt, slog.Linterruptalways} {
			if flags&f != 0 {
				slog.AddFlags(f)
			} else {
				slog.RemoveFlags(f)
			}
		}
	case "scope":
		slog.SetFlags(opposite)
		restore = slog.SaveFlagsAndMod(flags&^opposite, opposite&^flags)
	case "redundant":
		// the doc comment's own idiom, defer SaveFlagsAndMod(f)(), with flags that are set already (and one that is not)
		slog.SetFlags(flags)
		r := slog.SaveFlagsAndMod(flags&tbits|slog.Ldate, 0)
		tmp := slog.New("c12tmp").SetWriter(io.Discard).SetErrorWriter(io.Discard).SetLevel(slog.AlwaysLevel)
		tmp.Info("inside the scope")
		r()
	case "restored":
		slog.SetFlags(flags)
		r := slog.SaveFlagsAndMod(opposite&^flags, flags&^opposite)
		// a harmless record while the opposite flags are active
		tmp := slog.New("c12tmp").SetWriter(io.Discard).SetErrorWriter(io.Discard).SetLevel(slog.AlwaysLevel)
		tmp.Info("inside the scope")
		r()
	default:
		slog.SetFlags(flags)
	}
	_ = restore // the scope stays open for the call (the process / case ends afterwards)
	// (no assertion on GetFlags here: if the flag functions lose a termination flag on one of these paths, the
	// termination oracle below reports what the user would see)
	lg := slog.New("c12")
	switch s.Format {
	case "json":
		lg.SetJSONMode(true)
	case "logfmt":
		lg.SetColorMode(false)
	}
	lg.SetWriter(w)
	lg.SetErrorWriter(w)
	lg.SetLevel(slog.Level(s.L))
	slog.SetDefault(lg)
	return lg
}

// ---------- child ----------

const recSep = "\x1e"

type sepWriter struct{ f *os.File }

func (w sepWriter) Write(p []byte) (int, error) {
	b := append(append([]byte(nil), p...), recSep...)
	if _, err := w.f.Write(b); err != nil {
		return 0, err
	}
	return len(p), nil
}

type childResult struct {
	Returned  bool   `json:"returned"`
	Panicked  bool   `json:"panicked"`
	PanicType string `json:"panic_type"`
	PanicVal  string `json:"panic_val"`
	Testing   bool   `json:"testing"`
}

func childMain(path string) {
	b, err := os.ReadFile(path)
	if err != nil {
		os.Exit(4)
	}
	var s Scenario
	if json.Unmarshal(b, &s) != nil {
		os.Exit(4)
	}
	f, err := os.OpenFile(path+".rec", os.O_CREATE|os.O_WRONLY|os.O_APPEND, 0o644)
	if err != nil {
		os.Exit(4)
	}
	var dest io.Writer = sepWriter{f}
	if s.Dest == "filewriter" {
		_ = f.Close()
		dest = slog.NewFileWriter(path + ".rec")
	}
	if s.Dest == "discard" {
		dest = io.Discard // a silenced logger still terminates
	}
	lg := setup(s, dest)
	ep := epByName(s.EP)
	res := childResult{Testing: !vlib.ProductionMode()}
	func() {
		defer func() {
			if p := recover(); p != nil {
				res.Panicked = true
				res.PanicType = fmt.Sprintf("%T", p)
				res.PanicVal = fmt.Sprint(p)
			}
		}()
		ep.Call(lg, context.Background(), slog.Level(s.R), s.Msg, callArgs(s.Args))
		res.Returned = true
	}()
	out, _ := json.Marshal(res)
	_ = os.WriteFile(path+".res", out, 0o644)
	os.Exit(0)
}

// ---------- parent side ----------

var (
	binOnce          sync.Once
	testBin, prodBin string
	binErr           error
)

func binaries(t vlib.TB) (string, string) {
	binOnce.Do(func() {
		self := os.Getenv("VERIF_SELF")
		if self == "" {
			self = os.Args[0]
		}
		self, _ = filepath.Abs(self)
		dir := os.Getenv("VERIF_BUILD")
		if dir == "" {
			dir = os.TempDir()
		}
		dir = filepath.Join(dir, "c12bins-"+strconv.Itoa(os.Getpid()))
		if binErr = os.MkdirAll(dir, 0o755); binErr != nil {
			return
		}
		data, err := os.ReadFile(self)
		if err != nil {
			binErr = err
			return
		}
		testBin = filepath.Join(dir, "c12child.test") // name ends in .test and gets a -test. flag: "go test" process
		prodBin = filepath.Join(dir, "c12child.bin")  // any other name: production process
		for _, p := range []string{testBin, prodBin} {
			if binErr = os.WriteFile(p, data, 0o755); binErr != nil {
				return
			}
		}
	})
	if binErr != nil {
		t.Fatalf("harness: cannot prepare child binaries: %v", binErr)
	}
	return testBin, prodBin
}

func cleanupBins() {
	if testBin != "" {
		_ = os.RemoveAll(filepath.Dir(testBin))
	}
}

var scnCounter int
var scnMu sync.Mutex

func runChild(t vlib.TB, test string, s Scenario, dir string) {
	tb, pb := binaries(t)
	bin := tb
	if s.Prod {
		bin = pb
	}
	scnMu.Lock()
	scnCounter++
	path := filepath.Join(dir, fmt.Sprintf("scn%d.json", scnCounter))
	scnMu.Unlock()
	b, _ := json.Marshal(s)
	if err := os.WriteFile(path, b, 0o644); err != nil {
		t.Fatalf("harness: %v", err)
	}
	defer func() {
		_ = os.Remove(path)
		_ = os.Remove(path + ".rec")
		_ = os.Remove(path + ".res")
	}()
	cmd := exec.Command(bin, "-test.run", "^$")
	if s.BenchArg {
		cmd = exec.Command(bin, "-test.run", "^$", "-test.bench=^$")
	}
	cmd.Env = append(os.Environ(), "VERIF_CHILD="+path, "VERIF_STATS=")
	var se bytes.Buffer
	cmd.Stderr = &se
	err := cmd.Run()
	status := 0
	if err != nil {
		var ee *exec.ExitError
		if errors.As(err, &ee) {
			status = ee.ExitCode()
		} else {
			t.Fatalf("harness: cannot run child: %v", err)
		}
	}
	if status == 4 {
		t.Fatalf("harness: child could not read its scenario")
	}
	rec, _ := os.ReadFile(path + ".rec")
	var res childResult
	haveRes := false
	if rb, err := os.ReadFile(path + ".res"); err == nil {
		haveRes = json.Unmarshal(rb, &res) == nil
	}
	if haveRes && res.Testing == s.Prod {
		t.Fatalf("harness: child believes testing=%v but scenario wants production=%v", res.Testing, s.Prod)
	}
	admit, terminate := expect(s, s.Prod)
	nrec := bytes.Count(rec, []byte(recSep)) // child messages never contain the separator
	if s.Dest == "filewriter" && len(rec) > 0 {
		nrec = bytes.Count(rec, []byte(s.Msg)) // no separator in this mode: every record carries the (unique) message once
	}
	judge(t, test, s, admit, terminate, bytes.TrimSuffix(rec, []byte(recSep)), nrec, status, haveRes, res, se.String())
}

func judge(t vlib.TB, test string, s Scenario, admit, terminate bool, rec []byte, nrec int, status int, haveRes bool, res childResult, stderr string) {
	complete := nrec == 1 && bytes.Contains(rec, []byte(s.Msg)) && bytes.HasSuffix(rec, []byte("\n"))
	if s.Dest == "discard" {
		complete = true // nothing can be observed at an io.Discard destination
	}
	switch {
	case terminate && slog.Level(s.R) == slog.FatalLevel:
		if status != 253 {
			t.Fatalf("C12 %s: admitted Fatal must exit with status 253, child ended with status %d (returned=%v panicked=%v) stderr=%s", s, status, res.Returned, res.Panicked, stderr)
		}
		if haveRes {
			t.Fatalf("C12 %s: admitted Fatal must not return to the caller (result %+v)", s, res)
		}
		if !complete {
			t.Fatalf("C12 %s: the complete record must be written before the exit; destination holds %d records: %q", s, nrec, rec)
		}
	case terminate: // Panic
		if status != 0 || !haveRes || !res.Panicked || res.Returned {
			t.Fatalf("C12 %s: admitted Panic must panic (status=%d result=%+v) stderr=%s", s, status, res, stderr)
		}
		if res.PanicType != "string" || res.PanicVal != s.Msg {
			t.Fatalf("C12 %s: panic value must be the message, got (%s) %q", s, res.PanicType, res.PanicVal)
		}
		if !complete {
			t.Fatalf("C12 %s: the complete record must be written before the panic; destination holds %d records: %q", s, nrec, rec)
		}
	default:
		if status != 0 || !haveRes || res.Panicked || !res.Returned {
			t.Fatalf("C12 %s: the call must return normally (admitted=%v): status=%d result=%+v stderr=%s", s, admit, status, res, stderr)
		}
		// whether a numeric level that is neither built in nor registered is admitted is not this property's business
		// (nor any other's: C01 quantifies over built-in and registered levels): only "it never terminates" is judged
		known := (s.R >= 0 && s.R <= int(slog.FailLevel)) || slog.Level(s.R) == custPanicLike
		if known && admit && !complete {
			t.Fatalf("C12 %s: admitted, non-terminating: exactly one complete record expected, destination holds %d: %q", s, nrec, rec)
		}
		if known && !admit && len(rec) != 0 {
			t.Fatalf("C12 %s: not admitted but something was written: %q", s, rec)
		}
	}
	classify(test, s, admit, terminate)
}

func classify(test string, s Scenario, admit, terminate bool) {
	term := slog.Level(s.R) == slog.PanicLevel || slog.Level(s.R) == slog.FatalLevel
	conj := []bool{admit, term, !s.NoInterrupt, s.Prod || s.InterruptAlways}
	falseN := 0
	for _, c := range conj {
		if !c {
			falseN++
		}
	}
	key := ""
	if terminate || falseN == 1 {
		key = fmt.Sprintf("%s|%d|%d|%v|%v|%s|%v", s.EP, s.R, s.L, s.NoInterrupt, s.InterruptAlways, s.Format, s.Prod)
	}
	labels := []string{fmt.Sprintf("terminate=%v", terminate), fmt.Sprintf("production=%v", s.Prod), "sev=" + slog.Level(s.R).String()}
	if falseN == 1 {
		labels = append(labels, "exactly-one-conjunct-false")
	}
	vlib.Case(test, key, labels...)
	if key != "" {
		l := test + "/terminating"
		if !terminate {
			l = test + "/one-conjunct-false"
		}
		vlib.Sample(l, s)
	}
}

var formats = []string{"logfmt", "json", "color"}

func levelsAll() []int {
	var ls []int
	for _, l := range vlib.Builtins {
		ls = append(ls, int(l))
	}
	return append(ls, int(custPanicLike))
}

// severitiesForChildren adds numeric levels outside the built-in range (unregistered negative and huge
// values): "no other severity ever panics or exits". Only used in child processes - a wrongly
// terminating severity would take the harness process down in-process.
func severitiesForChildren() []int {
	return append(levelsAll(), -4, -1, -1000, 12, 1<<20)
}

func epNamesFor(r slog.Level) []string {
	var out []string
	for _, e := range vlib.EntryPointsFor(r) {
		if e.Kind != "verbose" {
			out = append(out, e.Name)
		}
	}
	return out
}

// TestChildMatrix: quick tier samples cells with rapid; thorough tier enumerates the
// complete matrix for the Panic and Fatal severities (sharded over processes) and
// samples the negative severities.
func TestChildSampled(t *testing.T) {
	dir := t.TempDir()
	defer cleanupBins()
	rapid.Check(t, func(t *rapid.T) {
		var s Scenario
		sevs := []int{int(slog.PanicLevel), int(slog.FatalLevel)}
		if rapid.IntRange(0, 3).Draw(t, "negative") == 0 {
			sevs = severitiesForChildren()
		}
		s.R = rapid.SampledFrom(sevs).Draw(t, "r")
		s.EP = rapid.SampledFrom(epNamesFor(slog.Level(s.R))).Draw(t, "ep")
		s.L = rapid.SampledFrom(levelsAll()).Draw(t, "L")
		s.NoInterrupt = rapid.Bool().Draw(t, "noInterrupt")
		s.InterruptAlways = rapid.Bool().Draw(t, "interruptAlways")
		s.Format = rapid.SampledFrom(formats).Draw(t, "format")
		s.Prod = rapid.Bool().Draw(t, "production")
		s.FlagHow = rapid.SampledFrom([]string{"set", "set", "addremove", "scope", "restored", "redundant"}).Draw(t, "flagHow")
		s.Msg = "c12 " + rapid.StringMatching(`[a-z]{1,8}( [a-z]{1,5}){0,2}`).Draw(t, "msg")
		s.Dest = rapid.SampledFrom([]string{"", "", "filewriter", "discard"}).Draw(t, "destination")
		s.Args = rapid.SampledFrom(argShapes).Draw(t, "argumentShape")
		s.BenchArg = rapid.IntRange(0, 3).Draw(t, "benchArgument") == 0
		runChild(t, "TestChildSampled", s, dir)
	})
}

func TestChildMatrix(t *testing.T) {
	if !vlib.Thorough() {
		t.Skip("the full matrix runs in the thorough tier")
	}
	dir := t.TempDir()
	defer cleanupBins()
	shard, _ := strconv.Atoi(os.Getenv("VERIF_SHARD"))
	nshards, _ := strconv.Atoi(os.Getenv("VERIF_NSHARDS"))
	if nshards <= 0 {
		nshards = 1
	}
	idx, total := 0, 0
	for _, r := range []slog.Level{slog.PanicLevel, slog.FatalLevel} {
		for _, ep := range epNamesFor(r) {
			for _, L := range levelsAll() {
				for _, ni := range []bool{false, true} {
					for _, ia := range []bool{false, true} {
						for _, prod := range []bool{false, true} {
							for _, f := range formats {
								idx++
								if idx%nshards != shard%nshards {
									continue
								}
								total++
								runChild(t, "TestChildMatrix", Scenario{EP: ep, R: int(r), L: L, NoInterrupt: ni, InterruptAlways: ia,
									Format: f, Prod: prod, Msg: fmt.Sprintf("matrix cell %d", idx), Dest: []string{"", "filewriter", "", "discard"}[idx%4], Args: argShapes[idx%len(argShapes)], BenchArg: idx%3 == 0}, dir)
							}
						}
					}
				}
			}
		}
	}
	vlib.ExtraAdd("matrix_cells_run", int64(total))
	vlib.Exhaustive(fmt.Sprintf("child-process matrix {Panic,Fatal} x entry points x 13 logger levels x noInterrupt x interruptAlways x {testing,production} x 3 formats = %d cells (sharded; every shard must pass)", idx))
}

// TestInProcess covers the Panic half and all negative cases at high volume inside the
// (testing-mode) harness process; scenarios that would exit the process are never drawn.
func TestInProcess(t *testing.T) {
	rapid.Check(t, func(t *rapid.T) {
		var s Scenario
		s.R = rapid.SampledFrom(levelsAll()).Draw(t, "r")
		if rapid.Bool().Draw(t, "panicBias") {
			s.R = int(slog.PanicLevel)
		}
		s.EP = rapid.SampledFrom(epNamesFor(slog.Level(s.R))).Draw(t, "ep")
		s.L = rapid.SampledFrom(levelsAll()).Draw(t, "L")
		s.NoInterrupt = rapid.Bool().Draw(t, "noInterrupt")
		s.InterruptAlways = rapid.Bool().Draw(t, "interruptAlways")
		s.Format = rapid.SampledFrom(formats).Draw(t, "format")
		s.FlagHow = rapid.SampledFrom([]string{"set", "set", "addremove", "scope", "restored", "redundant"}).Draw(t, "flagHow")
		s.Msg = "c12 " + vlib.GenMsg().Draw(t, "msg")
		s.Args = rapid.SampledFrom(argShapes).Draw(t, "argumentShape")
		if vlib.Rare(t, "discardDestination", 2) {
			s.Dest = "discard"
		}
		prod := vlib.ProductionMode()
		s.Prod = prod
		admit, terminate := expect(s, prod)
		if terminate && slog.Level(s.R) == slog.FatalLevel {
			s.InterruptAlways = false // would exit the harness process: leave it to the child-process checks
			if prod {
				s.NoInterrupt = true
			}
			admit, terminate = expect(s, prod)
		}
		restore := vlib.Canon()
		defer restore()
		log := vlib.NewEventLog()
		w := vlib.NewRec(log, 1, 0)
		lg := setup(s, w.(io.Writer))
		if s.Dest == "discard" {
			lg = setup(s, io.Discard)
		}
		ep := epByName(s.EP)
		var res childResult
		func() {
			defer func() {
				if p := recover(); p != nil {
					res.Panicked, res.PanicType, res.PanicVal = true, fmt.Sprintf("%T", p), fmt.Sprint(p)
				}
			}()
			ep.Call(lg, context.Background(), slog.Level(s.R), s.Msg, callArgs(s.Args))
			res.Returned = true
		}()
		var rec []byte
		nrec := len(log.Writes())
		for _, e := range log.Writes() {
			rec = append(rec, e.Payload...)
		}
		blank := slog.Level(s.R) == slog.AlwaysLevel && strings.TrimSpace(s.Msg) == ""
		if !blank && s.Format == "logfmt" && !strings.ContainsAny(s.Msg, "\"\\\n\r\t\x00") && !hasCtl(s.Msg) {
			judge(t, "TestInProcess", s, admit, terminate, rec, nrec, 0, true, res, "")
			return
		}
		// messages that the encoders escape: only count records, do not look for the raw message
		s2 := s
		s2.Msg = ""
		res2 := res
		if terminate {
			if !res.Panicked || res.PanicVal != s.Msg || res.PanicType != "string" {
				t.Fatalf("C12 %s: panic value must be the message, got (%s) %q", s, res.PanicType, res.PanicVal)
			}
			res2.PanicVal = ""
		}
		judge(t, "TestInProcess", s2, admit, terminate, rec, nrec, 0, true, res2, "")
	})
}

func hasCtl(s string) bool {
	for _, r := range s {
		if r < 0x20 || r == 0x7f || r > 0x7e {
			return true
		}
	}
	return false
}
