// C13 — failing destinations: bounded reaction, no lost records elsewhere, recovery.
package c13

import (
	"errors"
	"bytes"
	"context"
	"fmt"
	"io"
	"os"
	"strings"
	"syscall"
	"testing"
	"time"

	"github.com/hedzr/is"
	"github.com/hedzr/logg/slog"
	"github.com/hedzr/logg/slog/verifharness/vlib"
	"pgregory.net/rapid"
)

func TestMain(m *testing.M) { vlib.Main(m) }

// config: writer lists by pool index (a writer may be in several lists = shared)
type config struct {
	Normal, Error []int
	Leveled       map[int][]int
	L             slog.Level
	Format        string
}

type scenario struct {
	Cfg    config
	Calls  []slog.Level // severities of the faulty phase
	Bits   []bool       // Bits[j]: the j-th Write attempt (global order) fails
	Part   []bool       // Part[j]: a failing attempt reports a partial count instead of 0
	Perm   map[int]bool // writers failing on every attempt during the faulty phase
	Suffix []slog.Level // calls issued after all faults are switched off
	// ErrKind: what a failing Write returns: 0 a plain injected error, 1 an error wrapping os.ErrClosed, 2 io.ErrClosedPipe,
	// 3 io.ErrShortWrite, 4 syscall.EPIPE, 5 io.EOF, 6 context.DeadlineExceeded (a destination that is down reports
	// whatever its transport reports; none of them may make the failure permanent), 7 an error whose text differs for
	// every destination and attempt
	ErrKind int
	// Depth: 0 the logger is a root; 1 / 2: it is a child / grandchild of a root that has recording writers of its own
	// (and is at level Always): nothing may ever arrive there
	Depth int
	// Wrapped: every destination is handed over as slog.NewLogWriter(w), the exported wrapper for plain io.Writers
	Wrapped bool
	// Via: how a record is issued: 0 LogAttrs, 1 through the std log bridge NewLogLogger(logger, severity).Print,
	// 2 through the exported WriteInternal the bridge uses. The statement speaks of the record, not of its entry point
	Via int
	// Between the faulty phase and the suffix: Withdraw (1 normal, 2 error, 3 per-level list): the first destination of that
	// list is withdrawn with the matching Remove... call - it was written to before, it must get nothing afterwards and the
	// remaining ones everything; NewLevel > 0: the logger's level is changed to NewLevel-1 (the suffix runs under the new one)
	Withdraw int
	NewLevel int
}

func failure(kind int) error {
	switch kind % 8 {
	case 7:
		return errors.New("a different error text for every failing Write")
	case 1:
		return fmt.Errorf("write /var/log/app.log: %w", os.ErrClosed)
	case 2:
		return io.ErrClosedPipe
	case 3:
		return io.ErrShortWrite
	case 4:
		return syscall.EPIPE
	case 5:
		return io.EOF
	case 6:
		return context.DeadlineExceeded
	}
	return vlib.ErrInjected
}

// returnDeadline: how long one logging call may take before it is reported as not returning. A call does a handful
// of Writes into memory; the deadline only has to be far beyond any scheduling delay of a loaded machine.
const returnDeadline = 60 * time.Second

const cascadeLimit = 200 // Write attempts within ONE call before the guard trips

var model = vlib.NewLevelModel()

func dest(c config, r slog.Level) []int {
	if r == slog.OffLevel {
		return nil
	}
	if l := c.Leveled[int(r)]; len(l) > 0 {
		return l
	}
	if model.ErrorClass(r) {
		return c.Error
	}
	return c.Normal
}

// dupOK: deliveries to a writer that the configuration lists c times - one per entry, or one when the library folds a
// duplicate registration (the statements speak of the selected SET of destinations)
func dupOK(got, c int) bool { return got == c || (c > 1 && got == 1) }

func count(l []int, w int) (n int) {
	for _, x := range l {
		if x == w {
			n++
		}
	}
	return
}

func run(t vlib.TB, test string, sc scenario) {
	defer vlib.Canon()()
	{
		// the configuration changes between the phases (Withdraw, NewLevel): work on a private copy
		c := config{Normal: append([]int(nil), sc.Cfg.Normal...), Error: append([]int(nil), sc.Cfg.Error...), Leveled: map[int][]int{}, L: sc.Cfg.L, Format: sc.Cfg.Format}
		for k, v := range sc.Cfg.Leveled {
			c.Leveled[k] = append([]int(nil), v...)
		}
		sc.Cfg = c
	}
	log := vlib.NewEventLog()
	nw := 0
	for _, l := range [][]int{sc.Cfg.Normal, sc.Cfg.Error} {
		for _, w := range l {
			if w+1 > nw {
				nw = w + 1
			}
		}
	}
	for _, l := range sc.Cfg.Leveled {
		for _, w := range l {
			if w+1 > nw {
				nw = w + 1
			}
		}
	}
	nwAll := nw
	if sc.Depth > 0 {
		nwAll = nw + 2 // the ancestors' own writers
	}
	pool := make([]vlib.Writer, nwAll)
	for i := range pool {
		pool[i] = vlib.NewRec(log, i, i)
	}
	handle := func(w int) io.Writer {
		if sc.Wrapped {
			return slog.NewLogWriter(pool[w])
		}
		return pool[w]
	}
	lg := slog.New("c13")
	if sc.Depth > 0 {
		root := slog.New("c13root").SetWriter(pool[nw]).SetErrorWriter(pool[nw+1]).SetLevel(slog.AlwaysLevel)
		lg = root.New("c13")
		if sc.Depth > 1 {
			lg = root.New("c13mid").New("c13")
		}
	}
	switch sc.Cfg.Format {
	case "json":
		lg.SetJSONMode(true)
	case "logfmt":
		lg.SetColorMode(false)
	}
	for i, w := range sc.Cfg.Normal {
		if i == 0 {
			lg.SetWriter(handle(w))
		} else {
			lg.AddWriter(handle(w))
		}
	}
	for i, w := range sc.Cfg.Error {
		if i == 0 {
			lg.SetErrorWriter(handle(w))
		} else {
			lg.AddErrorWriter(handle(w))
		}
	}
	for lvl, l := range sc.Cfg.Leveled {
		for _, w := range l {
			lg.AddLevelWriter(slog.Level(lvl), handle(w))
		}
	}
	lg.SetLevel(sc.Cfg.L)
	between := ""

	global, inCall, faultsOn, tripped := 0, 0, true, false
	log.Fault = func(w, _ int, p []byte) (int, error) {
		j := global
		global++
		inCall++
		if inCall > cascadeLimit {
			tripped = true
			return len(p), nil
		}
		if !faultsOn {
			return len(p), nil
		}
		fail := sc.Perm[w] || (j < len(sc.Bits) && sc.Bits[j])
		if !fail {
			return len(p), nil
		}
		err := failure(sc.ErrKind)
		if sc.ErrKind%8 == 7 {
			// several destinations failing on one record each complain in their own words: still ONE diagnostic
			err = fmt.Errorf("destination w%d: quota exceeded after %d bytes (attempt %d)", w, len(p)*(w+1), j)
		}
		if j < len(sc.Part) && sc.Part[j] {
			return len(p) / 2, err
		}
		return 0, err
	}

	desc := func() string {
		return fmt.Sprintf("config{normal=%v error=%v leveled=%v level=%v format=%s depth-below-a-root-with-own-writers=%d wrapped-by-NewLogWriter=%v issued-via=%d} calls=%v bits=%v perm=%v failing-writes-return=%q between-the-phases=[%s] suffix=%v",
			sc.Cfg.Normal, sc.Cfg.Error, sc.Cfg.Leveled, sc.Cfg.L, sc.Cfg.Format, sc.Depth, sc.Wrapped, sc.Via, sc.Calls, sc.Bits, sc.Perm, failure(sc.ErrKind), between, sc.Suffix)
	}

	labels := map[string]bool{}
	doCall := func(n int, r slog.Level, phase string) {
		before := log.Len()
		inCall = 0
		tok := fmt.Sprintf("rec-%s-%d-tok", phase, n)
		// the call runs on a goroutine of its own: a call that never returns (a lock taken twice) is reported after
		// returnDeadline instead of hanging the run. Nothing else runs meanwhile, so the fault schedule stays sequential
		done := make(chan any, 1)
		go func() {
			defer func() { done <- recover() }()
			switch sc.Via {
			case 1:
				slog.NewLogLogger(lg, r).Print(tok)
			case 2:
				_, _ = lg.(slog.LogLoggerAware).WriteInternal(context.Background(), r, 0, []byte(tok+"\n"))
			default:
				lg.LogAttrs(context.Background(), r, tok, "n", n)
			}
		}()
		select {
		case p := <-done:
			if p != nil {
				t.Fatalf("C13 %s: call #%d (%s, severity %v) panicked: %v", desc(), n, phase, r, p)
			}
		case <-time.After(returnDeadline):
			t.Fatalf("C13 %s: call #%d (%s, severity %v) has not returned after %v (%d Write attempts so far in this call)", desc(), n, phase, r, returnDeadline, inCall)
		}
		if tripped {
			t.Fatalf("C13 %s: call #%d (%s, severity %v) caused more than %d Write attempts - cascade", desc(), n, phase, r, cascadeLimit)
		}
		evs := log.Snapshot()[before:]
		admit := model.Admit(sc.Cfg.L, r, is.DebugMode())
		behindGate := false
		if sc.Via == 2 {
			// WriteInternal is the half behind the gate (the bridge asks Enabled first), like WriteThru: on the current
			// tree it writes whatever the level says. Whether a direct call of it by a refusing logger writes or not no
			// statement says - either all selected destinations get the record or none does
			behindGate = !admit
			admit = true
		}
		want := dest(sc.Cfg, r)
		if !admit {
			want = nil
		}
		recGot, diagGot := map[int]int{}, map[int]int{}
		anyFail, diagFail := false, false
		var diagPayload []byte
		for i, e := range evs {
			if e.Kind != "write" {
				continue
			}
			if (e.W%4 == 2 || e.W%4 == 3) && e.W < nw {
				// a destination that asks to be told the severity: the record's own, Warn for the diagnostic (C03's clause,
				// looked at here because only failing destinations produce the second kind of record)
				wantSev := r
				if !bytes.Contains(e.Payload, []byte(tok)) {
					wantSev = slog.WarnLevel
				}
				told := false
				for j := i - 1; j >= 0; j-- {
					if evs[j].W == e.W && evs[j].Kind != "write" {
						told = evs[j].Kind == "setlevel" && evs[j].Level == wantSev
						break
					}
				}
				if !told {
					t.Fatalf("C13 %s: call #%d (%s, severity %v): the level-settable destination w%d was not told severity %v immediately before the Write of %q; events: %v",
						desc(), n, phase, r, e.W, wantSev, vlib.Short(string(e.Payload)), evs)
				}
			}
			switch {
			case bytes.Contains(e.Payload, []byte(tok)):
				recGot[e.W]++
				if e.Err != nil {
					anyFail = true
				}
				if !bytes.HasSuffix(e.Payload, []byte("\n")) {
					t.Fatalf("C13 %s: call #%d: writer w%d got an incomplete record %q", desc(), n, e.W, e.Payload)
				}
			default:
				diagGot[e.W]++
				if e.Err != nil {
					diagFail = true
				}
				if diagPayload == nil {
					diagPayload = e.Payload
				} else if !bytes.Equal(diagPayload, e.Payload) {
					t.Fatalf("C13 %s: call #%d (severity %v): more than one distinct extra record: %q and %q", desc(), n, r, diagPayload, e.Payload)
				}
			}
		}
		if behindGate && len(recGot) == 0 && len(diagGot) == 0 {
			want, admit = nil, false
			labels["behind-the-gate-call-refused"] = true
		}
		for w := 0; w < nwAll; w++ {
			if !dupOK(recGot[w], count(want, w)) {
				t.Fatalf("C13 %s: call #%d (%s, severity %v, admitted=%v): writer w%d got the record %d times, want %d (selected %v) although other destinations failed=%v; events: %v",
					desc(), n, phase, r, admit, w, recGot[w], count(want, w), want, anyFail, evs)
			}
		}
		wantDiag := anyFail && r != slog.WarnLevel && model.Admit(sc.Cfg.L, slog.WarnLevel, is.DebugMode())
		var wd []int
		if wantDiag {
			wd = dest(sc.Cfg, slog.WarnLevel)
		}
		for w := 0; w < nwAll; w++ {
			if !dupOK(diagGot[w], count(wd, w)) {
				t.Fatalf("C13 %s: call #%d (%s, severity %v): writer w%d got %d diagnostic records, want %d (a failure happened=%v, warning admitted=%v, warning destinations=%v); events: %v",
					desc(), n, phase, r, w, diagGot[w], count(wd, w), anyFail, model.Admit(sc.Cfg.L, slog.WarnLevel, is.DebugMode()), dest(sc.Cfg, slog.WarnLevel), evs)
			}
		}
		if wantDiag && len(wd) > 0 {
			if !bytes.HasSuffix(diagPayload, []byte("\n")) {
				t.Fatalf("C13 %s: diagnostic record is incomplete: %q", desc(), diagPayload)
			}
			labels["diagnostic"] = true
			if diagFail {
				labels["failing-diagnostic"] = true
			}
		}
		if anyFail {
			labels["failure"] = true
			// a failure on a writer that is not the last of its list
			if len(want) > 1 {
				for _, e := range evs {
					if e.Kind == "write" && e.Err != nil && bytes.Contains(e.Payload, []byte(tok)) && e.W != want[len(want)-1] {
						labels["failure-not-last"] = true
					}
				}
			}
			if r == slog.WarnLevel {
				labels["failing-warning"] = true
			}
			if !model.Admit(sc.Cfg.L, slog.WarnLevel, is.DebugMode()) {
				labels["diagnostic-not-admitted"] = true
			}
		}
		if phase == "suffix" && (anyFail || len(diagGot) > 0) {
			t.Fatalf("C13 %s: after the faults stopped, call #%d still saw failures or diagnostics: %v", desc(), n, evs)
		}
	}

	for i, r := range sc.Calls {
		doCall(i, r, "faulty")
	}
	faultsOn = false
	switch sc.Withdraw {
	case 1:
		// (a destination listed once only: what removing one of several registrations of a writer leaves is not stated)
		if len(sc.Cfg.Normal) > 1 && count(sc.Cfg.Normal, sc.Cfg.Normal[0]) == 1 {
			w := sc.Cfg.Normal[0]
			lg.RemoveWriter(pool[w])
			sc.Cfg.Normal = sc.Cfg.Normal[1:]
			between += fmt.Sprintf(" RemoveWriter(w%d)", w)
		}
	case 2:
		if len(sc.Cfg.Error) > 1 && count(sc.Cfg.Error, sc.Cfg.Error[0]) == 1 {
			w := sc.Cfg.Error[0]
			lg.RemoveErrorWriter(pool[w])
			sc.Cfg.Error = sc.Cfg.Error[1:]
			between += fmt.Sprintf(" RemoveErrorWriter(w%d)", w)
		}
	case 3:
		for _, lvl := range []int{int(slog.WarnLevel), int(slog.InfoLevel), int(slog.ErrorLevel), int(slog.AlwaysLevel), int(slog.DebugLevel)} {
			if l := sc.Cfg.Leveled[lvl]; len(l) > 0 && count(l, l[0]) == 1 {
				lg.RemoveLevelWriter(slog.Level(lvl), pool[l[0]])
				between += fmt.Sprintf(" RemoveLevelWriter(%d, w%d)", lvl, l[0])
				sc.Cfg.Leveled[lvl] = l[1:] // an emptied per-level list no longer takes precedence
				break
			}
		}
	}
	if sc.NewLevel > 0 {
		sc.Cfg.L = slog.Level(sc.NewLevel - 1)
		lg.SetLevel(sc.Cfg.L)
		between += fmt.Sprintf(" SetLevel(%v)", sc.Cfg.L)
	}
	for i, r := range sc.Suffix {
		doCall(i, r, "suffix")
	}
	if labels["failure"] && len(sc.Suffix) > 0 {
		labels["recovery-checked"] = true
	}

	key := ""
	if labels["failure-not-last"] || labels["failing-diagnostic"] || labels["recovery-checked"] {
		key = desc()
	}
	var ls []string
	for l := range labels {
		ls = append(ls, l)
	}
	vlib.Case(test, key, ls...)
	if key != "" && vlib.WantSample(test) {
		vlib.Sample(test, map[string]any{"scenario": desc(), "classes": vlib.JoinSorted(labels)})
	}
}

// ---------- exhaustive short schedules on canonical configurations ----------

var canonical = []struct {
	name  string
	cfg   config
	calls []slog.Level
}{
	{"A: 1 normal, 1 error", config{Normal: []int{0}, Error: []int{1}}, []slog.Level{slog.InfoLevel, slog.ErrorLevel, slog.WarnLevel}},
	{"B: 2 normal, 2 error", config{Normal: []int{0, 1}, Error: []int{2, 3}}, []slog.Level{slog.InfoLevel, slog.ErrorLevel}},
	{"C: writer shared by both lists", config{Normal: []int{0, 1}, Error: []int{1, 2}}, []slog.Level{slog.AlwaysLevel, slog.WarnLevel, slog.FailLevel}},
	{"D: per-level writers for Info and Warn", config{Normal: []int{0}, Error: []int{1}, Leveled: map[int][]int{int(slog.InfoLevel): {2}, int(slog.WarnLevel): {3, 1}}},
		[]slog.Level{slog.InfoLevel, slog.ErrorLevel, slog.WarnLevel}},
}

func TestExhaustiveSchedules(t *testing.T) {
	k := 8
	if vlib.Thorough() {
		k = 12
	}
	total := 0
	for _, c := range canonical {
		for _, L := range []slog.Level{slog.InfoLevel, slog.ErrorLevel, slog.AlwaysLevel} {
			for _, format := range []string{"logfmt"} {
				cfg := c.cfg
				cfg.L, cfg.Format = L, format
				for mask := 0; mask < 1<<k; mask++ {
					bits := make([]bool, k)
					part := make([]bool, k)
					for j := 0; j < k; j++ {
						bits[j] = mask&(1<<j) != 0
						part[j] = j%2 == 1
					}
					run(t, "TestExhaustiveSchedules", scenario{Cfg: cfg, Calls: c.calls, Bits: bits, Part: part,
						Suffix: []slog.Level{slog.InfoLevel, slog.ErrorLevel, slog.WarnLevel}, ErrKind: mask % 7, Depth: (mask / 7) % 3})
					total++
				}
			}
		}
	}
	vlib.Exhaustive(fmt.Sprintf("all 2^%d fail/succeed assignments to the first %d Write attempts on %d canonical configurations x logger levels {Info,Error,Always} = %d schedules",
		k, k, len(canonical), total))
}

// ---------- generated configurations and schedules ----------

func genScenario(t *rapid.T) scenario {
	var sc scenario
	pool := rapid.IntRange(2, 6).Draw(t, "pool")
	pick := func(label string, min, max int) []int {
		n := rapid.IntRange(min, max).Draw(t, label)
		l := make([]int, n)
		for i := range l {
			l[i] = rapid.IntRange(0, pool-1).Draw(t, label+"w")
		}
		return l
	}
	sc.Cfg.Normal = pick("normal", 1, 3)
	sc.Cfg.Error = pick("error", 1, 3)
	sc.Cfg.Leveled = map[int][]int{}
	nl := rapid.IntRange(0, 2).Draw(t, "nleveled")
	for i := 0; i < nl; i++ {
		lvl := rapid.SampledFrom([]slog.Level{slog.WarnLevel, slog.InfoLevel, slog.ErrorLevel, slog.AlwaysLevel, slog.DebugLevel}).Draw(t, "lvl")
		sc.Cfg.Leveled[int(lvl)] = pick("leveledw", 1, 2)
	}
	sc.Cfg.L = rapid.SampledFrom(vlib.Builtins).Draw(t, "L")
	sc.Cfg.Format = rapid.SampledFrom([]string{"logfmt", "json", "color"}).Draw(t, "format")
	sc.Calls = rapid.SliceOfN(rapid.SampledFrom(vlib.Builtins), 1, 12).Draw(t, "calls")
	sc.Bits = rapid.SliceOfN(rapid.Bool(), 0, 40).Draw(t, "bits")
	sc.Part = rapid.SliceOfN(rapid.Bool(), 0, 40).Draw(t, "partial")
	sc.Perm = map[int]bool{}
	if rapid.IntRange(0, 2).Draw(t, "hasPerm") == 0 {
		for _, w := range rapid.SliceOfNDistinct(rapid.IntRange(0, pool-1), 1, pool, rapid.ID[int]).Draw(t, "perm") {
			sc.Perm[w] = true
		}
	}
	sc.Suffix = rapid.SliceOfN(rapid.SampledFrom(vlib.Builtins), 1, 6).Draw(t, "suffix")
	sc.ErrKind = rapid.SampledFrom([]int{0, 0, 0, 1, 2, 3, 4, 5, 6, 7, 7}).Draw(t, "errorKind")
	sc.Depth = rapid.SampledFrom([]int{0, 0, 1, 2}).Draw(t, "depth")
	sc.Wrapped = rapid.IntRange(0, 3).Draw(t, "wrappedByNewLogWriter") == 0
	sc.Via = rapid.SampledFrom([]int{0, 0, 0, 1, 2}).Draw(t, "issuedVia")
	sc.Withdraw = rapid.SampledFrom([]int{0, 0, 0, 1, 2, 3}).Draw(t, "withdrawBetweenThePhases")
	sc.NewLevel = rapid.SampledFrom([]int{0, 0, 0, 1 + int(slog.WarnLevel), 1 + int(slog.InfoLevel), 1 + int(slog.ErrorLevel), 1 + int(slog.TraceLevel), 1 + int(slog.AlwaysLevel)}).Draw(t, "levelBetweenThePhases")
	return sc
}

func TestGeneratedFaults(t *testing.T) {
	rapid.Check(t, func(t *rapid.T) { run(t, "TestGeneratedFaults", genScenario(t)) })
}

var _ = strings.Join
