// C18 — path hardening never lets a protected directory prefix through.
package c18

import (
	"context"
	"fmt"
	"os"
	"path/filepath"
	"regexp"
	"runtime"
	"sort"
	"strings"
	"testing"

	"github.com/hedzr/logg/slog"
	"github.com/hedzr/logg/slog/verifharness/vlib"
	errorsv3 "gopkg.in/hedzr/errors.v3"
	"pgregory.net/rapid"
)

func TestMain(m *testing.M) { vlib.Main(m) }

var (
	homeDir, _ = os.UserHomeDir()
	cwdDir, _  = os.Getwd()
)

type mapping struct{ Prefix, Repl string }

type tableOp struct {
	Op   string // add | remove | addre | removere
	M    mapping
	Expr string
}

// resetTables puts the package's tables into their documented initial state.
func resetTables() {
	slog.ResetKnownPathMapping()
	slog.AddKnownPathMapping(homeDir, "~")
	slog.AddKnownPathMapping(cwdDir, ".")
	slog.ResetKnownPathRegexpMapping()
	slog.AddKnownPathRegexpMapping(`/Volumes/[^/]+/`, `~`)
}

// under reports whether path lies under prefix component-wise.
func under(path, prefix string) bool {
	p := strings.TrimRight(prefix, "/")
	if p == "" {
		return strings.HasPrefix(path, "/")
	}
	return path == p || strings.HasPrefix(path, p+"/")
}

// allowed computes every result obtainable by applying the mappings (each at most once)
// in some order, replacing only a leading, component-wise prefix. lookalike is set when
// some mapping prefix is a textual but not a component-wise prefix of a string met on the
// way (the statement does not say what happens then) or when a prefix occurs again inside.
func allowed(path string, ms []mapping) (set map[string]bool, lookalike bool) {
	// The table is walked once, in an unspecified order, each mapping being tried exactly once
	// on the current string: explore every order (memoised on current string + visited set).
	set = map[string]bool{}
	type key struct {
		cur  string
		mask uint
	}
	seen := map[key]bool{}
	full := uint(1)<<uint(len(ms)) - 1
	var rec func(cur string, mask uint)
	rec = func(cur string, mask uint) {
		k := key{cur, mask}
		if seen[k] {
			return
		}
		seen[k] = true
		if mask == full {
			set[cur] = true
			return
		}
		for i, m := range ms {
			if mask&(1<<uint(i)) != 0 {
				continue
			}
			next, ambiguous := applyMapping(cur, m)
			if ambiguous {
				lookalike = true
			}
			rec(next, mask|1<<uint(i))
		}
	}
	rec(path, 0)
	return set, lookalike
}

// applyMapping replaces a leading, component-wise prefix. A mapping registered with a trailing
// separator ("/opt/x/" -> "~x/") applies to everything below the directory; whether it also applies to
// the directory path itself written without the separator is not stated (ambiguous), as are textual
// look-alikes and prefixes that occur again further inside the path.
func applyMapping(cur string, m mapping) (next string, ambiguous bool) {
	if strings.HasSuffix(m.Prefix, "/") && len(m.Prefix) > 1 {
		switch {
		case strings.HasPrefix(cur, m.Prefix):
			rest := cur[len(m.Prefix):]
			return m.Repl + rest, strings.Contains(rest, m.Prefix)
		case cur == strings.TrimRight(m.Prefix, "/"):
			return cur, true
		}
		return cur, false
	}
	if strings.HasPrefix(cur, m.Prefix) && !under(cur, m.Prefix) {
		return cur, true
	}
	if under(cur, m.Prefix) {
		rest := cur[len(strings.TrimRight(m.Prefix, "/")):]
		return m.Repl + rest, strings.Contains(rest, m.Prefix)
	}
	return cur, false
}

func equivalentRel(r, input string) bool {
	if filepath.IsAbs(r) || !filepath.IsAbs(input) {
		return false
	}
	cwd, _ := os.Getwd()
	return len(r) < len(input) && filepath.Clean(filepath.Join(cwd, r)) == filepath.Clean(input)
}

type verdict struct {
	labels map[string]bool
}

// checkPath evaluates Safety(path) several times (Go randomises map iteration) under the
// given state and compares with the oracle.
// reRepls[i] is the replacement registered with regexps[i] (entries in registration order).
var reRepls []string

func checkPath(t vlib.TB, path string, ms []mapping, regexps []string, flagPath, flagRe bool, hist string, v *verdict) {
	results := map[string]bool{}
	for i := 0; i < 16; i++ {
		var r string
		func() {
			defer func() {
				if p := recover(); p != nil {
					t.Fatalf("C18 Safety(%q) panicked after [%s]: %v", path, hist, p)
				}
			}()
			r = slog.Safety(path)
		}()
		results[r] = true
	}
	if len(results) > 1 {
		v.labels["order-dependent-result"] = true
	}
	files := slog.SafetyFiles([]string{path})
	if len(files) != 1 {
		t.Fatalf("C18 SafetyFiles returned %d results for one path", len(files))
	}
	results[files[0]] = true

	if !flagPath {
		for r := range results {
			if r != path && !equivalentRel(r, path) {
				t.Fatalf("C18 privacy-path flag off after [%s]: Safety(%q) = %q, want the input or a shorter equivalent relative path", hist, path, r)
			}
		}
		v.labels["flag-off"] = true
		return
	}
	// regexp mappings / the /Volumes rule: when they may interfere only no-panic and the prefix rule are asserted
	interfere := strings.Contains(path, "/Volumes/")
	set, lookalike := allowed(path, ms)
	if flagRe {
		for _, ex := range regexps {
			re := regexp.MustCompile(ex)
			if re.MatchString(path) {
				interfere = true
			}
			for s := range set {
				if re.MatchString(s) {
					interfere = true
				}
			}
		}
	}
	for s := range set {
		if strings.HasPrefix(s, "/Volumes/") {
			interfere = true
		}
	}
	applicable := 0
	for _, m := range ms {
		if under(path, m.Prefix) {
			applicable++
		}
	}
	// a path that no prefix mapping applies to, with the regexp flag on: exactly the registered regexp rewrites,
	// in registration order, each one if it matches the path as given
	if flagRe && applicable == 0 && !lookalike && !strings.Contains(path, "/Volumes/") && len(reRepls) == len(regexps) {
		exp, matched := path, false
		for i, ex := range regexps {
			if re := regexp.MustCompile(ex); re.MatchString(path) {
				exp, matched = re.ReplaceAllString(exp, reRepls[i]), true
			}
		}
		if matched {
			v.labels["regexp-mappings-only(exact)"] = true
			for r := range results {
				if r != exp {
					vlib.Discrep(t, "C18/regexp", "C18 after [%s]: Safety(%q) = %q; the registered regexp mappings %q -> %q rewrite it to %q", hist, path, r, regexps, reRepls, exp)
				}
			}
			return
		}
	}
	switch {
	case lookalike:
		v.labels["lookalike(not asserted)"] = true
		return
	case interfere:
		v.labels["regexp-or-volumes(prefix rule only)"] = true
	}
	for r := range results {
		// the prefix rule: a protected directory prefix never comes through
		for _, m := range ms {
			leadsBack := false // some registered replacement points (back) under this very prefix: then it may legitimately show
			for _, m2 := range ms {
				if under(m2.Repl, m.Prefix) {
					leadsBack = true
				}
			}
			if under(path, m.Prefix) && under(r, m.Prefix) && !leadsBack {
				leaked := true
				for s := range set { // unless the documented replacements themselves lead there
					if s == r {
						leaked = false
					}
				}
				if leaked {
					vlib.Discrep(t, "C18/prefix-leak", "C18 after [%s]: Safety(%q) = %q still starts with the protected prefix %q", hist, path, r, m.Prefix)
				}
			}
		}
		if interfere {
			continue
		}
		if applicable == 0 {
			if r != path && !equivalentRel(r, path) {
				vlib.Discrep(t, "C18/outside", "C18 after [%s]: path outside all mappings: Safety(%q) = %q, want the input or a shorter equivalent relative path", hist, path, r)
			}
			continue
		}
		if !set[r] {
			var want []string
			for s := range set {
				want = append(want, s)
			}
			sort.Strings(want)
			sig := "C18/inside"
			if equivalentRel(r, path) {
				sig = "C18/inside-relative-shortcut"
			}
			vlib.Discrep(t, sig, "C18 after [%s]: Safety(%q) = %q, want one of %q (prefix replaced by its short form)", hist, path, r, want)
		}
	}
	if applicable >= 2 {
		v.labels[">=2-applicable-mappings"] = true
	}
	if applicable == 1 {
		v.labels["1-applicable-mapping"] = true
	}
	if applicable == 0 {
		v.labels["outside"] = true
	}
}

// ---------- generation ----------

func genComp() *rapid.Generator[string] { return rapid.StringMatching(`[a-z]{1,6}`) }

func genDir(t *rapid.T, label string) string {
	n := rapid.IntRange(1, 3).Draw(t, label+"depth")
	parts := make([]string, n)
	for i := range parts {
		parts[i] = genComp().Draw(t, label+"comp")
	}
	d := "/" + strings.Join(parts, "/")
	if rapid.IntRange(0, 7).Draw(t, label+"long") == 0 {
		// a directory name of realistic length: 60-140 bytes (deep project trees, long user or volume names)
		want := rapid.SampledFrom([]int{60, 63, 64, 65, 100, 127, 128, 140}).Draw(t, label+"len")
		for len(d) < want {
			d += "/" + strings.Repeat("d", min(12, want-len(d)-1))
			if len(d) == want-1 { // a bare separator cannot end the name
				d += "x"
			}
		}
	}
	return d
}

func genRepl(t *rapid.T, existing []mapping) string {
	switch rapid.IntRange(0, 5).Draw(t, "replKind") {
	case 0:
		return "~" + genComp().Draw(t, "tilde")
	case 1:
		return "$" + strings.ToUpper(genComp().Draw(t, "var"))
	case 2:
		return "/" + strings.ToUpper(genComp().Draw(t, "abs")) // absolute replacement
	case 3:
		if len(existing) > 0 { // chained: the replacement is another mapping's prefix
			return existing[rapid.IntRange(0, len(existing)-1).Draw(t, "chain")].Prefix
		}
		return "@"
	case 4:
		return "/" + strings.ToUpper(genComp().Draw(t, "abs")) + "/LONGER/REPLACEMENT"
	default:
		return "@" + genComp().Draw(t, "at")
	}
}

func genPath(t *rapid.T, ms []mapping) string {
	file := genComp().Draw(t, "file") + ".go"
	sub := ""
	for i := rapid.IntRange(0, 2).Draw(t, "subdepth"); i > 0; i-- {
		sub += "/" + genComp().Draw(t, "sub")
	}
	var bases []string
	for _, m := range ms {
		bases = append(bases, m.Prefix)
	}
	switch k := rapid.IntRange(0, 11).Draw(t, "pathKind"); {
	case k >= 10: // shapes the registered regexp mappings are written for (outside the prefix mappings unless one was added there)
		return rapid.SampledFrom([]string{"/srv/" + genComp().Draw(t, "srv"), "/opt/x", "/opt/y/z", "/data/node_modules/pkg", "/var/r2d2/v10", "/srv/a/node_modules/b7",
			"r2d2/v10", "x/node_modules/b7", "./v3", "../lib64"}).Draw(t, "reShape") // relative names too: an expression need not be anchored at the root + sub + "/" + file
	case k <= 3 && len(bases) > 0:
		return strings.TrimRight(rapid.SampledFrom(bases).Draw(t, "base"), "/") + sub + "/" + file
	case k == 4:
		return genDir(t, "out") + sub + "/" + file
	case k == 5:
		return rapid.SampledFrom([]string{"", ".", "./", "..", "../"}).Draw(t, "relbase") + strings.TrimPrefix(sub, "/") + "/" + file
	case k == 6:
		if rapid.IntRange(0, 2).Draw(t, "bareVolume") == 0 { // nothing (or only a file) after the volume name
			return rapid.SampledFrom([]string{"/Volumes/", "/Volumes", "/Volumes/vWork", "/Volumes/a.go", "/Volumes//", "/Volumes/v/"}).Draw(t, "volumeShape")
		}
		return "/Volumes/" + genComp().Draw(t, "vol") + sub + "/" + file
	case k == 7 && len(bases) > 0: // textual look-alike of a protected prefix
		return strings.TrimRight(rapid.SampledFrom(bases).Draw(t, "base"), "/") + genComp().Draw(t, "suffix") + sub + "/" + file
	case k == 8:
		return vlib.GenAnyString().Draw(t, "arbitrary")
	case k == 9 && len(bases) > 0: // exactly the prefix, with or without a trailing slash
		return rapid.SampledFrom(bases).Draw(t, "base") + rapid.SampledFrom([]string{"", "/"}).Draw(t, "slash")
	}
	return filepath.Join(cwdDir, "..", "vlib", file)
}

// cyclic reports whether adding m would let a chain of replacements lead back under a prefix
// that is itself mapped (e.g. /a -> /b together with /b -> /a).
func cyclic(ms []mapping, m mapping) bool {
	table := map[string]string{}
	for _, x := range ms {
		table[x.Prefix] = x.Repl
	}
	table[m.Prefix] = m.Repl
	for start := range table {
		cur, steps := table[start], 0
		for steps < len(table)+1 {
			next, ok := "", false
			for p, r := range table {
				if under(cur, p) {
					next, ok = r+cur[len(strings.TrimRight(p, "/")):], true
					break
				}
			}
			if !ok {
				break
			}
			if under(next, start) {
				return true
			}
			cur = next
			steps++
		}
		if steps >= len(table)+1 {
			return true
		}
	}
	return false
}

var rePatterns = []string{`/Volumes/[^/]+/`, `^/srv/[a-z]+/`, `/node_modules/`, `[0-9]+`, `^/opt/(x|y)/`}

func TestSafety(t *testing.T) {
	rapid.Check(t, func(t *rapid.T) {
		defer vlib.Canon()()
		defer resetTables()
		resetTables()
		ms := []mapping{{homeDir, "~"}, {cwdDir, "."}}
		regexps := []string{`/Volumes/[^/]+/`}
		reRepls = []string{"~"}
		var hist []string
		v := &verdict{labels: map[string]bool{}}
		nops := rapid.IntRange(0, 6).Draw(t, "tableOps")
		for i := 0; i < nops; i++ {
			switch rapid.IntRange(0, 6).Draw(t, "op") {
			case 6:
				// the package's general reset functions concern level and flags; the path tables are not theirs
				// (the flags are set again below)
				switch rapid.IntRange(0, 2).Draw(t, "whichReset") {
				case 0:
					slog.Reset()
					hist = append(hist, "Reset()")
				case 1:
					slog.ResetFlags()
					hist = append(hist, "ResetFlags()")
				default:
					slog.ResetLevel()
					hist = append(hist, "ResetLevel()")
				}
				v.labels["general-reset-before-query"] = true
			case 0, 1, 2:
				var m mapping
				switch rapid.IntRange(0, 3).Draw(t, "prefixKind") {
				case 0: // nested under an existing prefix
					m.Prefix = strings.TrimRight(ms[rapid.IntRange(0, len(ms)-1).Draw(t, "parent")].Prefix, "/") + "/" + genComp().Draw(t, "nested")
				case 1: // an ancestor of an existing prefix
					m.Prefix = filepath.Dir(ms[rapid.IntRange(0, len(ms)-1).Draw(t, "child")].Prefix)
				default:
					m.Prefix = genDir(t, "prefix")
				}
				if m.Prefix == "/" || m.Prefix == "." || m.Prefix == "" {
					continue
				}
				m.Repl = genRepl(t, ms)
				if rapid.IntRange(0, 3).Draw(t, "trailingSeparator") == 0 {
					// registered the other common way: "/opt/x/" -> "~x/"
					m.Prefix += "/"
					m.Repl = strings.TrimRight(m.Repl, "/") + "/"
					v.labels["prefix-with-trailing-separator"] = true
				}
				if under(m.Repl, m.Prefix) {
					m.Repl = "@self" // a mapping onto (something under) its own prefix protects nothing
				}
				if cyclic(ms, m) {
					continue // mappings that lead back to a protected prefix cannot be honoured by any implementation
				}
				dup := false
				for j := range ms {
					if ms[j].Prefix == m.Prefix {
						ms[j].Repl = m.Repl
						dup = true
					}
				}
				if !dup {
					ms = append(ms, m)
				}
				slog.AddKnownPathMapping(m.Prefix, m.Repl)
				hist = append(hist, fmt.Sprintf("AddKnownPathMapping(%q,%q)", m.Prefix, m.Repl))
			case 3:
				if len(ms) > 2 { // generated mappings only: whether removing the home mapping lifts its protection is not stated
					j := rapid.IntRange(2, len(ms)-1).Draw(t, "remove")
					slog.RemoveKnownPathMapping(ms[j].Prefix)
					hist = append(hist, fmt.Sprintf("RemoveKnownPathMapping(%q)", ms[j].Prefix))
					ms = append(ms[:j], ms[j+1:]...)
					v.labels["remove-before-query"] = true
				}
			case 4:
				ex := rapid.SampledFrom(rePatterns).Draw(t, "regexp")
				repl := rapid.SampledFrom([]string{"~re", "~re", "/abs/re/"}).Draw(t, "regexpReplacement") // an absolute one too: the result is not to be made relative afterwards
				if len(regexps) > 1 && rapid.IntRange(0, 2).Draw(t, "sameExpressionAgain") == 0 {
					// the same expression registered a second time (by another part of the program), with a replacement of
					// its own: removing one registration leaves the other in force
					ex = regexps[rapid.IntRange(1, len(regexps)-1).Draw(t, "registeredExpression")]
					repl = "~r2"
					v.labels["regexp-registered-twice"] = true
				}
				slog.AddKnownPathRegexpMapping(ex, repl)
				regexps = append(regexps, ex)
				reRepls = append(reRepls, repl)
				hist = append(hist, fmt.Sprintf("AddKnownPathRegexpMapping(%q,%q)", ex, repl))
				if ex != rePatterns[0] && rapid.IntRange(0, 2).Draw(t, "twiceThenRemovedOnce") == 0 {
					// two parts of a program register the expression, one of them withdraws its registration
					slog.AddKnownPathRegexpMapping(ex, "~r2")
					regexps = append(regexps, ex)
					reRepls = append(reRepls, "~r2")
					slog.RemoveKnownPathRegexpMapping(ex)
					for k := range regexps { // the package removes the FIRST entry with that expression
						if regexps[k] == ex {
							regexps = append(regexps[:k], regexps[k+1:]...)
							reRepls = append(reRepls[:k], reRepls[k+1:]...)
							break
						}
					}
					hist = append(hist, fmt.Sprintf("AddKnownPathRegexpMapping(%q,\"~r2\")", ex), fmt.Sprintf("RemoveKnownPathRegexpMapping(%q)", ex))
					v.labels["regexp-registered-twice"] = true
				}
			default:
				if len(regexps) > 0 {
					j := rapid.IntRange(0, len(regexps)-1).Draw(t, "removere")
					for k := range regexps { // the package removes the FIRST entry with that expression
						if regexps[k] == regexps[j] {
							j = k
							break
						}
					}
					slog.RemoveKnownPathRegexpMapping(regexps[j])
					hist = append(hist, fmt.Sprintf("RemoveKnownPathRegexpMapping(%q)", regexps[j]))
					reRepls = append(reRepls[:j], reRepls[j+1:]...)
					// the package removes the first entry with that expression
					regexps = append(regexps[:j], regexps[j+1:]...)
				}
			}
		}
		flagPath := rapid.IntRange(0, 5).Draw(t, "privacyPathFlag") != 0
		flagRe := rapid.Bool().Draw(t, "privacyRegexpFlag")
		flags := vlib.BaseFlags &^ (slog.Lprivacypath | slog.Lprivacypathregexp)
		if flagPath {
			flags |= slog.Lprivacypath
		}
		if flagRe {
			flags |= slog.Lprivacypathregexp
		}
		npaths := rapid.IntRange(1, 4).Draw(t, "npaths")
		var paths []string
		for i := 0; i < npaths; i++ {
			paths = append(paths, genPath(t, ms))
		}
		// the same paths are asked about inside the flag scopes too (other privacy flags in force): an answer given there
		// is not the answer under the final flags
		vlib.FlagScopeHook = func() {
			for _, p := range paths {
				_ = slog.Safety(p)
			}
			_ = slog.SafetyFiles(paths)
		}
		vlib.SetFlagsVia(rapid.SampledFrom([]int{0, 0, 1, 2, 3, 4}).Draw(t, "flagsHow"), flags, slog.Lprivacypath|slog.Lprivacypathregexp|slog.Lcaller)
		vlib.FlagScopeHook = nil
		h := strings.Join(hist, "; ") + fmt.Sprintf(" flags{privacypath=%v regexp=%v}", flagPath, flagRe)
		if rapid.IntRange(0, 4).Draw(t, "chdir") == 0 {
			// the process changes its working directory after start-up: a relative form must be relative to where
			// the process is NOW (the registered start-up directory mapping stays what it is)
			to := rapid.SampledFrom([]string{filepath.Join(cwdDir, "..", "vlib"), filepath.Dir(cwdDir), "/", os.TempDir()}).Draw(t, "chdirTo")
			if err := os.Chdir(to); err == nil {
				defer func() { _ = os.Chdir(cwdDir) }()
				h += fmt.Sprintf(" after os.Chdir(%q)", to)
				v.labels["working-directory-changed"] = true
			}
		}
		for _, p := range paths {
			checkPath(t, p, ms, regexps, flagPath, flagRe, h, v)
		}
		for _, m := range ms[2:] {
			if filepath.IsAbs(m.Repl) {
				v.labels["absolute-replacement"] = true
			}
		}
		key := ""
		if v.labels[">=2-applicable-mappings"] || v.labels["absolute-replacement"] || v.labels["remove-before-query"] {
			key = h + "|" + strings.Join(paths, "|")
		}
		var ls []string
		for l := range v.labels {
			ls = append(ls, l)
		}
		vlib.Case("TestSafety", key, ls...)
		if key != "" && vlib.WantSample("TestSafety") {
			vlib.Sample("TestSafety", map[string]any{"tables": hist, "paths": paths, "classes": vlib.JoinSorted(v.labels)})
		}
	})
}

// TestCallerField: the caller.file of an emitted record obeys the same policy as Safety.
func TestCallerField(t *testing.T) {
	_, thisFile, _, _ := runtime.Caller(0)
	rapid.Check(t, func(t *rapid.T) {
		defer vlib.Canon()()
		defer resetTables()
		resetTables()
		ms := []mapping{{homeDir, "~"}, {cwdDir, "."}}
		var hist []string
		// mappings over ancestors of the harness's own source directory
		anc := []string{}
		for d := filepath.Dir(thisFile); d != "/" && d != "."; d = filepath.Dir(d) {
			anc = append(anc, d)
		}
		n := rapid.IntRange(0, 2).Draw(t, "nmappings")
		for i := 0; i < n; i++ {
			m := mapping{Prefix: rapid.SampledFrom(anc).Draw(t, "ancestor"), Repl: genRepl(t, nil)}
			dup := false
			for j := range ms {
				if ms[j].Prefix == m.Prefix {
					ms[j].Repl = m.Repl
					dup = true
				}
			}
			if !dup {
				ms = append(ms, m)
			}
			slog.AddKnownPathMapping(m.Prefix, m.Repl)
			hist = append(hist, fmt.Sprintf("AddKnownPathMapping(%q,%q)", m.Prefix, m.Repl))
		}
		if rapid.IntRange(0, 3).Draw(t, "removeCwd") == 0 {
			slog.RemoveKnownPathMapping(cwdDir)
			hist = append(hist, "RemoveKnownPathMapping(cwd)")
			ms = append(ms[:1], ms[2:]...)
		}
		// one or two records from the very same call statement, the privacy flag drawn anew for each (a caller
		// resolved under the other flag value must not be reused)
		rounds := rapid.SampledFrom([]int{1, 2, 2, 3}).Draw(t, "recordsFromTheSameCallSite")
		// regexp mappings that match this very source file may be added and removed between the records
		var cfRe, cfRepl []string
		flagRe := rapid.Bool().Draw(t, "privacyRegexpFlag")
		for round := 0; round < rounds; round++ {
			switch rapid.IntRange(0, 3).Draw(t, "regexpOp") {
			case 0:
				ex := rapid.SampledFrom([]string{`/harness/`, `c18_test`, `[0-9]+`, `^/verif/`}).Draw(t, "regexp")
				slog.AddKnownPathRegexpMapping(ex, "~R")
				cfRe, cfRepl = append(cfRe, ex), append(cfRepl, "~R")
				hist = append(hist, fmt.Sprintf("AddKnownPathRegexpMapping(%q,\"~R\")", ex))
			case 1:
				if len(cfRe) > 0 {
					slog.RemoveKnownPathRegexpMapping(cfRe[0])
					hist = append(hist, fmt.Sprintf("RemoveKnownPathRegexpMapping(%q)", cfRe[0]))
					cfRe, cfRepl = cfRe[1:], cfRepl[1:]
				}
			}
			flagPath := rapid.IntRange(0, 5).Draw(t, "privacyPathFlag") != 0
			if round == 0 && rounds == 2 {
				flagPath = rapid.Bool().Draw(t, "firstRecordPrivacyPathFlag")
			}
			flags := (vlib.BaseFlags | slog.Lcaller) &^ (slog.Lprivacypath | slog.Lprivacypathregexp)
			if flagPath {
				flags |= slog.Lprivacypath
			}
			if flagRe {
				flags |= slog.Lprivacypathregexp
			}
			slog.SetFlags(flags)
			format := rapid.SampledFrom([]string{"json", "logfmt", "color"}).Draw(t, "format")
			log := vlib.NewEventLog()
			w := vlib.NewRec(log, 1, 0)
			lg := slog.New("cf").SetWriter(w).SetErrorWriter(w).SetLevel(slog.AlwaysLevel)
			switch format {
			case "json":
				lg.SetJSONMode(true)
			case "logfmt":
				lg.SetColorMode(false)
			}
			lg.LogAttrs(context.Background(), slog.InfoLevel, "caller probe")
			p := log.Writes()[0].Payload
			var file string
			switch format {
			case "json":
				o, err := vlib.DecodeJSONRecord(p)
				if err != nil {
					t.Fatalf("C18: %v: %q", err, p)
				}
				c, _ := o.Vals["caller"].(*vlib.JObj)
				if c != nil {
					file, _ = c.Vals["file"].(string)
				}
			case "logfmt":
				pairs, err := vlib.ParseLogfmtRecord(p)
				if err != nil {
					t.Fatalf("C18: %v: %q", err, p)
				}
				for _, pr := range pairs {
					if pr.Key == "caller.file" {
						file = pr.Str
					}
				}
			default:
				txt := strings.TrimSuffix(vlib.SimulateSGR(p).Text, "\n")
				f := strings.Fields(txt)
				if len(f) >= 2 {
					tail := f[len(f)-2]
					if i := strings.LastIndexByte(tail, ':'); i > 0 {
						file = tail[:i]
					}
				}
			}
			h := strings.Join(hist, "; ") + fmt.Sprintf(" flags{privacypath=%v regexp=%v} format=%s record=%d/%d", flagPath, flagRe, format, round+1, rounds)
			if file == "" {
				t.Fatalf("C18 after [%s]: no caller file found in record %q", h, p)
			}
			set, _ := allowed(thisFile, ms)
			applicable := 0
			for _, m := range ms {
				if under(thisFile, m.Prefix) {
					applicable++
				}
			}
			ok := set[file]
			if !flagPath || applicable == 0 {
				ok = file == thisFile || equivalentRel(file, thisFile)
			}
			// registered regexp mappings that match this file (both flags on)
			reExp, reMatched := thisFile, false
			if flagPath && flagRe {
				for i, ex := range cfRe {
					if re := regexp.MustCompile(ex); re.MatchString(thisFile) {
						reExp, reMatched = re.ReplaceAllString(reExp, cfRepl[i]), true
					}
				}
			}
			if reMatched {
				if applicable == 0 {
					ok = file == reExp // no prefix mapping applies: exactly the regexp rewrites, in registration order
					set = map[string]bool{reExp: true}
				} else {
					ok = true // prefix and regexp mappings both apply: their interplay is not asserted
				}
			}
			if !ok {
				var want []string
				for s := range set {
					want = append(want, s)
				}
				sort.Strings(want)
				vlib.Discrep(t, "C18/caller-field", "C18 after [%s]: the record's caller file is %q; Safety policy allows %q (flag on=%v) for %q", h, file, want, flagPath, thisFile)
			}
			// the same source file reported elsewhere: by the exported Source helper, and as the origin of an error value
			// that carries a stack (err.trace.file in JSON, the file/line line of the error dump under go test) - the
			// policy is one and the same
			if ok {
				var src slog.Source
				if f := src.Extract(here()).File; f != file {
					vlib.Discrep(t, "C18/caller-field", "C18 after [%s]: Source.Extract(pc).File = %q for a frame in %q, the caller field of a record from the same file says %q", h, f, thisFile, file)
				}
				log.Reset()
				lg.LogAttrs(context.Background(), slog.ErrorLevel, "error origin probe", "err", errorsv3.New("boom"))
				ep := log.Writes()[0].Payload
				origin := file
				switch format {
				case "json":
					if o, err := vlib.DecodeJSONRecord(ep); err == nil {
						if e, _ := o.Vals["err"].(*vlib.JObj); e != nil {
							if tr, _ := e.Vals["trace"].(*vlib.JObj); tr != nil {
								origin, _ = tr.Vals["file"].(string)
							}
						}
					}
				default:
					txt := vlib.SimulateSGR(ep).Text
					if k := strings.Index(txt, "file/line: "); k >= 0 {
						line := strings.SplitN(txt[k+len("file/line: "):], "\n", 2)[0]
						if i := strings.LastIndexByte(line, ':'); i > 0 {
							origin = line[:i]
						}
					}
				}
				if origin != file {
					vlib.Discrep(t, "C18/caller-field", "C18 after [%s]: a record reports the origin of its error value as %q; the caller field of a record from the same file says %q: %q", h, origin, file, ep)
				}
				vlib.Label("error-origin-and-Source.Extract")
			}
			// and Safety itself must agree with one of the allowed forms
			if flagPath && applicable > 0 && !reMatched {
				if s := slog.Safety(thisFile); !set[s] {
					vlib.Discrep(t, "C18/inside", "C18 after [%s]: Safety(%q) = %q not in %v", h, thisFile, s, set)
				}
			}
			key := ""
			if len(ms) > 2 || !flagPath {
				key = h
			}
			vlib.Case("TestCallerField", key, "format="+format, fmt.Sprintf("flag=%v", flagPath))
			if key != "" && vlib.WantSample("TestCallerField") {
				vlib.Sample("TestCallerField", map[string]any{"tables": hist, "format": format, "caller_file": file})
			}
			hist = append(hist, fmt.Sprintf("record(privacypath=%v)", flagPath))
		}
	})
}

func FuzzSafety(f *testing.F) {
	for _, s := range []string{"/root/a.go", "/Volumes/x/y.go", "/Volumes/", "/Volumes", "", "/", "a/b", homeDir, cwdDir + "/x.go", "\x00", "/root/../etc"} {
		f.Add(s)
	}
	f.Fuzz(func(t *testing.T, path string) {
		v := &verdict{labels: map[string]bool{}}
		resetTables()
		slog.SetFlags(vlib.BaseFlags | slog.Lprivacypath | slog.Lprivacypathregexp)
		reRepls = []string{"~"}
		checkPath(t, path, []mapping{{homeDir, "~"}, {cwdDir, "."}}, []string{`/Volumes/[^/]+/`}, true, true, "initial tables", v)
		slog.SetFlags(vlib.BaseFlags | slog.Lprivacypath)
		checkPath(t, path, []mapping{{homeDir, "~"}, {cwdDir, "."}}, nil, true, false, "initial tables, regexp flag off", v)
		vlib.Case("FuzzSafety", "")
	})
}

func here() uintptr {
	var pcs [1]uintptr
	runtime.Callers(1, pcs[:])
	return pcs[0]
}
