// C06 — colored console mode: faithful layout and no colour bleeding out of a record.
package c06

import (
	"context"
	"fmt"
	"io"
	"regexp"
	"runtime"
	"strings"
	"testing"
	"time"
	"unicode/utf8"

	"github.com/hedzr/is/term/color"
	"github.com/hedzr/logg/slog"
	"github.com/hedzr/logg/slog/verifharness/vlib"
	"pgregory.net/rapid"
)

func TestMain(m *testing.M) { vlib.Main(m) }

const (
	custTagged = slog.Level(25) // registered with tags and colours
	custPlain  = slog.Level(26) // registered without tags and colours
	custRaw    = slog.Level(33) // unregistered
	custShort  = slog.Level(27) // registered without tags under a title shorter than most tag widths
)

// documented short tags of the built-in levels (slog/level.go), widths 1..5
var _ = builtinTags

var builtinTags = map[int]map[slog.Level]string{
	1: {slog.PanicLevel: "P", slog.FatalLevel: "F", slog.ErrorLevel: "E", slog.WarnLevel: "W", slog.InfoLevel: "I", slog.DebugLevel: "D", slog.TraceLevel: "T", slog.OffLevel: " ", slog.AlwaysLevel: "A", slog.OKLevel: "o", slog.SuccessLevel: "s", slog.FailLevel: "f"},
	2: {slog.PanicLevel: "PC", slog.FatalLevel: "FL", slog.ErrorLevel: "ER", slog.WarnLevel: "WN", slog.InfoLevel: "IF", slog.DebugLevel: "DG", slog.TraceLevel: "TC", slog.OffLevel: "  ", slog.AlwaysLevel: "AA", slog.OKLevel: "OK", slog.SuccessLevel: "SU", slog.FailLevel: "FA"},
	3: {slog.PanicLevel: "PNC", slog.FatalLevel: "FTL", slog.ErrorLevel: "ERR", slog.WarnLevel: "WRN", slog.InfoLevel: "INF", slog.DebugLevel: "DBG", slog.TraceLevel: "TRC", slog.OffLevel: "   ", slog.AlwaysLevel: " A ", slog.OKLevel: " OK", slog.SuccessLevel: "SUC", slog.FailLevel: "FAI"},
	4: {slog.PanicLevel: "PNIC", slog.FatalLevel: "FTAL", slog.ErrorLevel: "ERRO", slog.WarnLevel: "WARN", slog.InfoLevel: "INFO", slog.DebugLevel: "DBUG", slog.TraceLevel: "TRAC", slog.OffLevel: "    ", slog.AlwaysLevel: " AA ", slog.OKLevel: " OK ", slog.SuccessLevel: "SUCC", slog.FailLevel: "FAIL"},
	5: {slog.PanicLevel: "PANIC", slog.FatalLevel: "FATAL", slog.ErrorLevel: "ERROR", slog.WarnLevel: "WARNI", slog.InfoLevel: "INFOR", slog.DebugLevel: "DEBUG", slog.TraceLevel: "TRACE", slog.OffLevel: "     ", slog.AlwaysLevel: "  A  ", slog.OKLevel: "  OK ", slog.SuccessLevel: "SUCCS", slog.FailLevel: " FAIL"},
}

var custTags = [slog.MaxLengthShortTag]string{"", "N", "NT", "NTC", "NOTC", "NOTIC"}

// expectedTag: the registered custom tag; otherwise (also for a level registered without tags) whatever
// Level.ShortTag(w) gives - the statement only fixes the WIDTH of the
// tag, which is asserted separately (the documented built-in table is kept for reference in builtinTags).
func expectedTag(l slog.Level, w int) string {
	switch l {
	case custTagged:
		return custTags[w]
	}
	return l.ShortTag(w)
}

type scenario struct {
	Sev      slog.Level
	TagW     int
	MsgW     int
	Msg      string
	Class    string // layout | hygiene
	Attrs    []vlib.ExpAttr
	Caller   bool
	Named    bool
	TS       time.Time
	ViaVerb  bool
	DateFlag bool
	How      int  // how the logger becomes colored: 0 SetColorMode(true), 1 option of New, 2 option of New on a JSON parent, 3 WithColorMode method on a logfmt parent
	FlagsHow int  // which public way sets the flags (vlib.SetFlagsVia)
	Disturb  int  // which scratch record is printed right before the record under test (vlib.Disturb; 0 none)
	PreLog   bool // a colored record at the same (then still unregistered) level value is emitted BEFORE the custom levels are registered
	Recolour int  // 0: no; otherwise SetLevelColors(severity, ...) with one of a few fg/bg pairs before logging
}

func here() uintptr {
	var pcs [1]uintptr
	runtime.Callers(1, pcs[:])
	return pcs[0]
}

var callerTail = regexp.MustCompile(`(?:^| )(\S+):(\d+) (\S+)$`)

func hasCtlOrEsc(s string) bool {
	for i := 0; i < len(s); i++ {
		if (s[i] < 0x20 && s[i] != '\n') || s[i] == 0x7f {
			return true
		}
	}
	return false
}

func isASCII(s string) bool {
	for i := 0; i < len(s); i++ {
		if s[i] >= 0x80 {
			return false
		}
	}
	return true
}

func hasTopLevelError(as []vlib.ExpAttr) bool {
	for _, a := range as {
		if !a.IsGroup {
			if _, ok := a.Val.V.(error); ok {
				return true
			}
		}
	}
	return false
}

func run(t vlib.TB, test string, sc scenario, thruAttrs slog.Attrs, args []any) {
	defer vlib.Canon()()
	if sc.PreLog {
		// whatever the package may remember about a level value while it is unregistered must not survive its registration
		pre := slog.New("prelog").SetColorMode(true).SetWriter(io.Discard).SetErrorWriter(io.Discard).SetLevel(slog.AlwaysLevel)
		slog.SetLevelOutputWidth(sc.TagW)
		pre.LogAttrs(context.Background(), sc.Sev, "before registration")
	}
	_ = slog.RegisterLevel(custTagged, "notice", slog.RegWithShortTags(custTags), slog.RegWithColor(color.FgWhite, color.BgUnderline), slog.RegWithTreatedAsLevel(slog.InfoLevel))
	_ = slog.RegisterLevel(custPlain, "plainlvl")
	_ = slog.RegisterLevel(custShort, "zq")
	flags := vlib.BaseFlags
	if sc.Caller {
		flags |= slog.Lcaller
	}
	layout := "15:04:05.000000Z07:00"
	if sc.DateFlag {
		flags |= slog.Ldate
		layout = "2006-01-02T15:04:05.000000Z07:00"
	}
	vlib.SetFlagsVia(sc.FlagsHow, flags, slog.Lcaller|slog.Ldate|slog.Ltime|slog.LattrsR)
	if sc.Recolour > 0 {
		pairs := [][2]color.Color{{color.FgRed, color.BgBoldOrBright}, {color.FgLightGreen, color.NoColor}, {color.FgWhite, color.BgUnderline}, {color.FgDefault, color.BgDim}}
		pr := pairs[(sc.Recolour-1)%len(pairs)]
		slog.SetLevelColors(sc.Sev, pr[0], pr[1]) // the colour table is restored by the verif hook (Canon)
	}
	slog.SetLevelOutputWidth(sc.TagW)
	slog.SetMessageMinimalWidth(sc.MsgW)
	log := vlib.NewEventLog()
	w := vlib.NewRec(log, 1, 0)
	name := ""
	var lg slog.Logger
	switch {
	case sc.How == 1 && sc.Named:
		name = "svc"
		lg = slog.New(name, slog.WithColorMode(true))
	case sc.How == 2:
		parent := slog.New("jsonparent").SetJSONMode(true)
		lg = parent.New("svckid", slog.WithColorMode())
		name = "svckid"
	case sc.How == 3:
		parent := slog.New("lfparent").SetColorMode(false)
		lg = parent.WithColorMode(true)
		name = lg.Name()
	default:
		if sc.Named {
			name = "svc"
			lg = slog.New(name)
		} else {
			lg = slog.New()
		}
		lg.SetColorMode(true)
	}
	lg.SetWriter(w)
	lg.SetErrorWriter(w)
	lg.SetLevel(slog.AlwaysLevel)

	vlib.Disturb(sc.Disturb)
	func() {
		defer func() {
			if p := recover(); p != nil {
				t.Fatalf("C06 call panicked: %v (severity %v msg %s attrs [%s])", p, sc.Sev, vlib.Short(sc.Msg), vlib.Describe(sc.Attrs))
			}
		}()
		if sc.ViaVerb {
			lg.LogAttrs(context.Background(), sc.Sev, sc.Msg, args...)
		} else {
			lg.(slog.LogSlogAware).WriteThru(context.Background(), sc.Sev, sc.TS, here(), sc.Msg, thruAttrs)
		}
	}()
	writes := log.Writes()
	if len(writes) != 1 {
		t.Fatalf("C06 harness expectation: exactly one record, got %d", len(writes))
	}
	payload := writes[0].Payload
	desc := fmt.Sprintf("production=%v class=%s severity=%d tagwidth=%d msgwidth=%d named=%v caller=%v msg=%s attrs=[%s]",
		vlib.ProductionMode(), sc.Class, int(sc.Sev), sc.TagW, sc.MsgW, sc.Named, sc.Caller, vlib.Short(sc.Msg), vlib.Describe(sc.Attrs))

	// expected line structure of the message
	body := strings.TrimRight(sc.Msg, "\n\r")
	first, rest := body, []string(nil)
	if i := strings.IndexByte(body, '\n'); i >= 0 {
		first = body[:i]
		rest = strings.Split(body[i+1:], "\n")
	}
	mainLines := 1 + len(rest)
	errDump := !vlib.ProductionMode() && hasTopLevelError(vlib.Normalize(sc.Attrs))

	// ---- (a) hygiene on the raw payload ----
	// Known finding: messages with markup go through an HTML parser (the colour-markup translator of
	// github.com/hedzr/is), which turns CR into LF and decodes character references such as &#10; or
	// &#27; into raw bytes inside the coloured first line.
	sigBleedEnd, sigBleedLF, sigRaw := "C06/bleed-at-end", "C06/bleed-at-linebreak", "C06/raw-control-byte"
	if strings.Contains(sc.Msg, "&") || (strings.Contains(sc.Msg, "<") && strings.Contains(sc.Msg, "\r")) {
		sigBleedEnd, sigBleedLF, sigRaw = "C06/translator-injects-control-bytes", "C06/translator-injects-control-bytes", "C06/translator-injects-control-bytes"
	}
	r := vlib.SimulateSGR(payload)
	if r.DirtyAtEnd {
		vlib.Discrep(t, sigBleedEnd, "C06 %s: a colour is still on when the record ends; payload %q", desc, payload)
	}
	for i, dirty := range r.StateAtLine {
		if dirty && (i < mainLines || !errDump) {
			vlib.Discrep(t, sigBleedLF, "C06 %s: a colour is still on at line break #%d; payload %q", desc, i+1, payload)
			break
		}
	}
	if !hasCtlOrEsc(sc.Msg) && !strings.Contains(sc.Msg, "\x1b") {
		// offset where the error dump (go test / debugger only) starts: after the main lines.
		// Inside the dump a tab is tolerated (stack traces are tab-indented).
		dumpStart, seen := len(payload), 0
		for i, b := range payload {
			if b == '\n' {
				seen++
				if seen == mainLines {
					dumpStart = i + 1
					break
				}
			}
		}
		for _, off := range r.BadBytes {
			if errDump && off >= dumpStart && payload[off] == '\t' {
				continue
			}
			if payload[off] == '\t' && strings.Contains(sc.Msg, "&") {
				continue // a tab written as a character reference (&#9; &Tab;) is the message's own tab
			}
			vlib.Discrep(t, sigRaw, "C06 %s: raw control/escape byte %#x at offset %d does not come from the message; payload %q",
				desc, payload[off], off, payload)
			break
		}
	}
	if len(payload) == 0 || payload[len(payload)-1] != '\n' {
		t.Fatalf("C06 %s: payload does not end with a newline: %q", desc, payload)
	}

	// ---- (b) layout (layout class only) ----
	if sc.Class == "layout" {
		lines := strings.Split(strings.TrimSuffix(r.Text, "\n"), "\n")
		head := ""
		if !sc.ViaVerb {
			head = sc.TS.Format(layout) + "| "
		} else {
			// timestamp of "now": only its shape is known
			i := strings.Index(lines[0], "| ")
			if i < 0 {
				t.Fatalf("C06 %s: no timestamp separator in %q", desc, lines[0])
			}
			if _, err := time.Parse(layout, lines[0][:i]); err != nil {
				vlib.Discrep(t, "C06/layout", "C06 %s: timestamp %q does not parse with %q", desc, lines[0][:i], layout)
			}
			head = lines[0][:i+2]
		}
		if name != "" {
			head += name + " "
		}
		tag := expectedTag(sc.Sev, sc.TagW)
		if len(tag) != sc.TagW {
			vlib.Discrep(t, "C06/layout-tag-width", "C06 %s: the level tag %q is not %d characters wide", desc, tag, sc.TagW)
		}
		head += "[" + tag + "] "
		if !strings.HasPrefix(lines[0], head) {
			vlib.Discrep(t, "C06/layout", "C06 %s: record starts with %q, want head %q", desc, clip(lines[0], len(head)+10), head)
			return
		}
		col := lines[0][len(head):]
		if !strings.HasPrefix(col, first) {
			vlib.Discrep(t, "C06/layout-msg", "C06 %s: message column %q does not start with the first line %q", desc, clip(col, len(first)+10), first)
			return
		}
		after := col[len(first):]
		pad := len(after) - len(strings.TrimLeft(after, " "))
		rem := strings.TrimLeft(after, " ")
		wantPad := sc.MsgW - len(first)
		if wantPad < 0 {
			wantPad = 0
		}
		hasTail := rem != ""
		if isASCII(first) {
			// exact: W-len(first) blanks, plus the single separator blank if something follows
			exact := wantPad
			if hasTail {
				exact++
			}
			if pad < exact || (pad > exact && len(vlib.Flatten(vlib.Normalize(sc.Attrs), "")) > 0 && pad > exact+8) {
				vlib.Discrep(t, "C06/layout-pad", "C06 %s: first line %q is followed by %d blanks, want %d (minimal width %d)", desc, first, pad, exact, sc.MsgW)
			}
			if pad < exact {
				return
			}
		} else if pad < wantPad {
			vlib.Discrep(t, "C06/layout-pad", "C06 %s: non-ASCII first line %q is followed by %d blanks, want at least %d", desc, first, pad, wantPad)
		}
		rem = strings.TrimRight(rem, " ")
		region := rem
		if sc.Caller {
			m := callerTail.FindStringSubmatchIndex(rem)
			if m == nil {
				vlib.Discrep(t, "C06/layout-caller", "C06 %s: no 'file:line function' tail in %q", desc, clip(rem, 200))
				return
			}
			region = strings.TrimRight(rem[:m[0]], " ")
		}
		pairs, err := vlib.ParseLogfmtRecord([]byte(region + "\n"))
		if err != nil {
			vlib.Discrep(t, "C06/layout-attrs", "C06 %s: attribute region %q is not key=value pairs: %v", desc, clip(region, 300), err)
			return
		}
		if err := vlib.MatchLogfmtAttrsOrdered(pairs, vlib.Normalize(sc.Attrs), false); err != nil {
			vlib.Discrep(t, "C06/layout-attrs", "C06 %s: %v; attribute region %q", desc, err, clip(region, 300))
			return
		}
		// remaining message lines, each indented by four spaces
		if len(lines) < mainLines {
			vlib.Discrep(t, "C06/layout-rest", "C06 %s: record has %d lines, want at least %d: %q", desc, len(lines), mainLines, r.Text)
			return
		}
		for i, l := range rest {
			if lines[1+i] != "    "+l {
				vlib.Discrep(t, "C06/layout-rest", "C06 %s: line %d is %q, want %q", desc, 2+i, lines[1+i], "    "+l)
				return
			}
		}
		if !errDump {
			extra := lines[mainLines:]
			if len(extra) > 1 || (len(extra) == 1 && extra[0] != "") {
				vlib.Discrep(t, "C06/layout-rest", "C06 %s: unexpected lines after the record: %q", desc, extra)
			}
		}
	}

	// ---- classification ----
	set := map[string]bool{"class=" + sc.Class: true}
	nt := false
	if len(rest) > 0 {
		set["multi-line"] = true
		nt = true
	}
	switch sc.Sev {
	case custPlain, custRaw, custShort:
		set["level-without-colour"] = true
		nt = true
	case custTagged:
		set["custom-level-with-tags"] = true
	}
	if sc.Recolour > 0 {
		set["level-colours-changed"] = true
		nt = true
	}
	if sc.PreLog {
		set["logged-before-registration"] = true
	}
	if sc.How > 0 {
		set[fmt.Sprintf("colored-set-how-%d", sc.How)] = true
	}
	if sc.TagW != 3 || sc.MsgW != 36 {
		set["non-default-widths"] = true
		nt = true
	}
	for _, a := range vlib.Flatten(vlib.Normalize(sc.Attrs), "") {
		switch v := a.Val.V.(type) {
		case string:
			if hasCtlOrEsc(v) || strings.Contains(v, "\x1b") {
				set["value-with-control-bytes"] = true
				nt = true
			}
		case []byte:
			if hasCtlOrEsc(string(v)) {
				set["value-with-control-bytes"] = true
				nt = true
			}
		case error:
			set["error-value"] = true
		}
		if vlib.IsFallbackKind(a.Val.Kind) {
			set["fallback-kind"] = true
		}
	}
	if errDump {
		set["error-dump"] = true
	}
	if !isASCII(first) {
		set["non-ascii-first-line"] = true
	}
	if strings.ContainsAny(sc.Msg, "<>&") {
		set["markup-in-message"] = true
	}
	key := ""
	if nt {
		key = fmt.Sprintf("%s|%d|%d|%d|%d", vlib.JoinSorted(set), int(sc.Sev), sc.TagW, sc.MsgW/8, len(rest))
	}
	var labels []string
	for l := range set {
		labels = append(labels, l)
	}
	labels = append(labels, fmt.Sprintf("production=%v", vlib.ProductionMode()))
	vlib.Case(test, key, labels...)
	if key != "" && vlib.WantSample(test+"/"+sc.Class) {
		vlib.Sample(test+"/"+sc.Class, map[string]any{"scenario": desc, "payload": vlib.Short(string(payload))})
	}
}

func clip(s string, n int) string {
	if len(s) > n {
		return s[:n] + "…"
	}
	return s
}

// ---------- generation ----------

var reserved = map[string]bool{"time": true, "level": true, "msg": true, "caller": true, "logger": true}

func genKey() *rapid.Generator[string] {
	return rapid.OneOf(
		rapid.StringMatching(`[a-z][a-z0-9_]{0,7}`),
		rapid.StringMatching(`[a-zA-Z0-9_:/@#%*+,;?!$^|~(){}-]{1,8}`),
		rapid.SampledFrom([]string{"error", "ключ", "键", "a-b", "0", "msgs"}),
	).Filter(func(k string) bool { return !reserved[k] && k != "" })
}

// layout-class messages: no '<', '>', '&', no control characters other than LF
func genLayoutMsg() *rapid.Generator[string] {
	line := rapid.OneOf(
		rapid.StringMatching(`[a-zA-Z0-9 .,:;_/()'"=%#@!?*+-]{0,30}`),
		rapid.StringMatching(`[a-z ]{0,12}`),
		rapid.StringMatching(`[a-zé世界🙂ü ]{0,12}`),
		rapid.StringMatching(` {1,4}[a-z]{1,8} {0,3}`),
		rapid.Map(rapid.IntRange(30, 90), func(n int) string { return strings.Repeat("wide ", n/5+1)[:n] }),
	)
	return rapid.Custom(func(t *rapid.T) string {
		n := rapid.SampledFrom([]int{1, 1, 1, 2, 3, 5}).Draw(t, "lines")
		parts := make([]string, n)
		for i := range parts {
			parts[i] = line.Draw(t, "line")
		}
		s := strings.Join(parts, "\n")
		switch rapid.IntRange(0, 5).Draw(t, "tail") {
		case 0:
			s += "\n"
		case 1:
			s += "\n\n"
		}
		return s
	})
}

// hygiene-class messages: anything without ESC
func genHygieneMsg() *rapid.Generator[string] {
	return rapid.OneOf(vlib.GenMsg(), rapid.SampledFrom([]string{"<b>bold", "<b>x</b> tail", "<font color=\"red\">r</font>", "a & b", "<i>line1\nline2</i>", "</b>", "<kbd>k", "&amp;&lt;", "<dim>d\n", "<mark>", "x<br>y",
		"&#10;x", "a&#27;[31mb", "&NewLine;z", "x\r<b>y", "]\r&", "&#13;", "&#x1b;[0m",
		// escape sequences other than colour ones, spelled as character references
		"&#27;[2J", "clear &#27;c screen", "&#x1b;]0;window title&#7;", "x&#27;[1;1Hy", "&#27;[?25l", "&#155;31m", "a&#27;b", "&#27;", "&#27;[", "&#27;[12", "&#8;&#8;&#8;gone", "&Tab;tab", "del&#127;here", "&#x7f;", "nul&#0;", "&#31;&#30;"})).
		Filter(func(s string) bool { return !strings.Contains(s, "\x1b") })
}

// values whose colored rendering tokenises unambiguously
func genLayoutValue() *rapid.Generator[vlib.Value] {
	strs := rapid.OneOf(vlib.GenPlainString(), vlib.GenAnyString())
	return rapid.OneOf(vlib.GenScalar(strs), vlib.GenScalar(strs), vlib.GenSlice(strs))
}

func genScenario(t *rapid.T) (scenario, slog.Attrs, []any) {
	var sc scenario
	sevs := append(append([]slog.Level{}, vlib.Builtins...), custTagged, custPlain, custRaw, custShort)
	sc.Sev = rapid.SampledFrom(sevs).Filter(func(l slog.Level) bool { return l != slog.OffLevel }).Draw(t, "severity")
	sc.TagW = rapid.SampledFrom([]int{3, 3, 1, 2, 4, 5}).Draw(t, "tagWidth")
	sc.MsgW = rapid.SampledFrom([]int{36, 36, 16, 20, 48, 80}).Draw(t, "msgWidth")
	sc.Class = rapid.SampledFrom([]string{"layout", "layout", "hygiene"}).Draw(t, "class")
	sc.Caller = rapid.Bool().Draw(t, "caller")
	sc.Named = rapid.Bool().Draw(t, "named")
	sc.DateFlag = rapid.IntRange(0, 3).Draw(t, "dateflag") == 0
	sc.Recolour = rapid.SampledFrom([]int{0, 0, 0, 1, 2, 3, 4}).Draw(t, "recolour")
	sc.How = rapid.SampledFrom([]int{0, 0, 1, 2, 3}).Draw(t, "howColoredIsSet")
	sc.FlagsHow = rapid.SampledFrom([]int{0, 0, 1, 2, 3, 4}).Draw(t, "flagsHow")
	sc.Disturb = vlib.GenDisturb().Draw(t, "disturbance")
	sc.PreLog = rapid.IntRange(0, 3).Draw(t, "preLogWhileUnregistered") == 0
	sc.TS = vlib.GenTime().Draw(t, "ts")
	sc.ViaVerb = rapid.IntRange(0, 3).Draw(t, "viaVerb") == 0
	g := vlib.AttrGen{Keys: genKey(), MaxDepth: 3, MaxLen: 5, UniqueKeys: true}
	if sc.Class == "layout" {
		sc.Msg = genLayoutMsg().Draw(t, "msg")
		g.Vals = genLayoutValue()
	} else {
		sc.Msg = genHygieneMsg().Draw(t, "msg")
		// ... and the documentation's sample marshaller (it prints strings through the encoder's AddString)
		g.Vals = rapid.OneOf(vlib.GenValue(vlib.GenAnyString()), vlib.GenValue(vlib.GenAnyString()), vlib.GenValue(vlib.GenAnyString()), vlib.GenDocUser(vlib.GenAnyString()))
	}
	if sc.Sev == slog.AlwaysLevel && vlib.LooksBlank(sc.Msg) {
		sc.Msg = "x" + sc.Msg // a blank Print is a bare newline (C02), not a record
	}
	sc.Attrs = vlib.GenAttrs(t, g, 0)
	if sc.ViaVerb {
		return sc, nil, vlib.BuildArgs(t, sc.Attrs)
	}
	return sc, slog.Attrs(vlib.BuildAttrs(t, sc.Attrs)), nil
}

func TestColoredRecords(t *testing.T) {
	rapid.Check(t, func(t *rapid.T) {
		sc, ta, args := genScenario(t)
		run(t, "TestColoredRecords", sc, ta, args)
	})
}

func FuzzColored(f *testing.F) {
	for _, s := range vlib.HostileStrings {
		f.Add(s, s, []byte(s))
		f.Add("line1\nline2", s, []byte("b"))
	}
	f.Fuzz(func(t *testing.T, msg, sval string, bval []byte) {
		if strings.Contains(msg, "\x1b") {
			msg = strings.ReplaceAll(msg, "\x1b", "?")
		}
		if !utf8.ValidString(msg) {
			msg = strings.ToValidUTF8(msg, "?")
		}
		attrs := []vlib.ExpAttr{
			{Key: "s", Val: vlib.Value{Kind: "string", V: sval}},
			{Key: "b", Val: vlib.Value{Kind: "bytes", V: bval}},
			{Key: "e", Val: vlib.Value{Kind: "error", V: fmt.Errorf("%s", sval)}},
			{Key: "p", Val: vlib.Value{Kind: "struct", V: vlib.Pt{X: 1, Y: sval}}},
			{Key: "g", IsGroup: true, Group: []vlib.ExpAttr{{Key: "m", Val: vlib.Value{Kind: "named-string", V: vlib.MyStr(sval)}}}},
		}
		args := []any{"s", sval, "b", bval, "e", attrs[2].Val.V, "p", attrs[3].Val.V, slog.Group("g", "m", vlib.MyStr(sval))}
		if vlib.LooksBlank(msg) {
			msg += "x"
		}
		run(t, "FuzzColored", scenario{Sev: slog.InfoLevel, TagW: 3, MsgW: 36, Msg: msg, Class: "hygiene", Attrs: attrs, ViaVerb: true, Named: true}, nil, args)
	})
}
