// C20 — the short duration formatter is total and invertible by the package's
// parser; the parser agrees with time.ParseDuration and only adds the day unit.
package c20

import (
	"fmt"
	"math"
	"math/big"
	"strings"
	"sync"
	"testing"
	"time"

	"github.com/hedzr/logg/slog/internal/times"
	"github.com/hedzr/logg/slog/verifharness/vlib"
	"pgregory.net/rapid"
)

func TestMain(m *testing.M) { vlib.Main(m) }

// ---------- (a) formatter: total + round trip ----------

func genDuration() *rapid.Generator[int64] {
	comp := rapid.Custom(func(t *rapid.T) int64 {
		days := rapid.SampledFrom([]int64{0, 0, 1, 2, 99, 99999, 106750, 106751}).Draw(t, "days")
		h := rapid.SampledFrom([]int64{0, 1, 10, 23}).Draw(t, "h")
		m := rapid.SampledFrom([]int64{0, 1, 59}).Draw(t, "m")
		s := rapid.SampledFrom([]int64{0, 1, 59}).Draw(t, "s")
		ms := rapid.SampledFrom([]int64{0, 1, 100, 999}).Draw(t, "ms")
		us := rapid.SampledFrom([]int64{0, 1, 10, 999}).Draw(t, "us")
		ns := rapid.SampledFrom([]int64{0, 1, 500, 999}).Draw(t, "ns")
		var total big.Int
		total.SetInt64(days)
		total.Mul(&total, big.NewInt(24)).Add(&total, big.NewInt(h))
		total.Mul(&total, big.NewInt(60)).Add(&total, big.NewInt(m))
		total.Mul(&total, big.NewInt(60)).Add(&total, big.NewInt(s))
		total.Mul(&total, big.NewInt(1000)).Add(&total, big.NewInt(ms))
		total.Mul(&total, big.NewInt(1000)).Add(&total, big.NewInt(us))
		total.Mul(&total, big.NewInt(1000)).Add(&total, big.NewInt(ns))
		if !total.IsInt64() {
			return math.MaxInt64
		}
		v := total.Int64()
		if rapid.Bool().Draw(t, "neg") {
			v = -v
		}
		return v
	})
	boundary := rapid.Custom(func(t *rapid.T) int64 {
		base := rapid.SampledFrom([]int64{
			0, 1, int64(time.Microsecond), int64(time.Millisecond), int64(time.Second), int64(time.Minute),
			int64(time.Hour), 24 * int64(time.Hour), math.MaxInt64, math.MinInt64, math.MaxInt64 / 2,
			10 * int64(time.Second), 100 * int64(time.Millisecond),
		}).Draw(t, "base")
		delta := rapid.Int64Range(-3, 3).Draw(t, "delta")
		v := base + delta
		if (delta > 0 && v < base) || (delta < 0 && v > base) { // wrapped
			v = base
		}
		if rapid.Bool().Draw(t, "neg") && v != math.MinInt64 {
			v = -v
		}
		return v
	})
	return rapid.OneOf(rapid.Int64(), comp, boundary, rapid.Int64Range(-5_000_000_000, 5_000_000_000))
}

func formatNoPanic(d time.Duration, frac bool) (s string, p any) {
	defer func() { p = recover() }()
	return times.SmartDurationStringEx(d, frac), nil
}

func checkFormat(t vlib.TB, test string, d int64, frac bool) {
	s, p := formatNoPanic(time.Duration(d), frac)
	style := "compact"
	if frac {
		style = "fractional"
	}
	if p != nil {
		t.Fatalf("C20 format panics: SmartDurationStringEx(%d, %v) (%s style): %v", d, frac, style, p)
	}
	back, err := times.ParseDuration(s)
	if err != nil {
		t.Fatalf("C20 round trip: %d formats (%s) as %q which the parser rejects: %v", d, style, s, err)
	}
	if int64(back) != d {
		t.Fatalf("C20 round trip: %d formats (%s) as %q which parses back to %d", d, style, s, int64(back))
	}
	if m, mp := mustParseNoPanic(s); mp != nil || int64(m) != d {
		t.Fatalf("C20 round trip: %d formats (%s) as %q which MustParseDuration, the parser's twin without an error result, turns into %d (panic %v)", d, style, s, int64(m), mp)
	}
	if !frac && d == int64(time.Duration(d)) {
		// SmartDurationString is the compact style
		if s2, p2 := func() (s string, p any) {
			defer func() { p = recover() }()
			return times.SmartDurationString(time.Duration(d)), nil
		}(); p2 != nil || s2 != s {
			t.Fatalf("C20 SmartDurationString(%d) = %q, panic %v; SmartDurationStringEx(.., false) = %q", d, s2, p2, s)
		}
	}
	abs := d
	if abs < 0 {
		abs = -abs
	}
	key := ""
	sub := d%int64(time.Second) != 0
	if abs < 0 || abs >= 24*int64(time.Hour) || (sub && abs >= int64(time.Second)) {
		key = fmt.Sprintf("%s:%d", style, d)
	}
	labels := []string{"style=" + style}
	switch {
	case d == math.MinInt64 || d == math.MaxInt64:
		labels = append(labels, "extreme")
	case abs >= 24*int64(time.Hour):
		labels = append(labels, ">=1day")
	case abs < int64(time.Second):
		labels = append(labels, "<1s")
	}
	vlib.Case(test, key, labels...)
	if key != "" {
		vlib.Sample(test+"/"+style, map[string]any{"d": d, "text": s})
	}
}

func TestFormatRoundTrip(t *testing.T) {
	// fixed hostile constants first (replay tier of the shrunk findings)
	for _, d := range []int64{math.MinInt64, math.MinInt64 + 1, math.MaxInt64, -math.MaxInt64, 0, 1, -1,
		-(106751*24*int64(time.Hour) + 23*int64(time.Hour) + 47*int64(time.Minute) + 16*int64(time.Second) + 854775807)} {
		checkFormat(t, "TestFormatRoundTrip", d, false)
		checkFormat(t, "TestFormatRoundTrip", d, true)
	}
	rapid.Check(t, func(t *rapid.T) {
		d := genDuration().Draw(t, "d")
		frac := rapid.Bool().Draw(t, "frac")
		checkFormat(t, "TestFormatRoundTrip", d, frac)
	})
}

func FuzzFormat(f *testing.F) {
	for _, d := range []int64{math.MinInt64, math.MaxInt64, 0, 1, -1, 999, 1000, int64(time.Hour) * 24} {
		f.Add(d, true)
		f.Add(d, false)
	}
	f.Fuzz(func(t *testing.T, d int64, frac bool) { checkFormat(t, "FuzzFormat", d, frac) })
}

// ---------- (b) parser vs time.ParseDuration ----------

type token struct {
	num, unit string
}

// tokenize splits s (sign already removed) the way the standard grammar does:
// number = digits [ '.' digits ], unit = run of bytes that are neither digit nor '.'.
// ok=false when s does not have that overall shape.
func tokenize(s string) (toks []token, ok bool) {
	for s != "" {
		i := 0
		for i < len(s) && (s[i] == '.' || (s[i] >= '0' && s[i] <= '9')) {
			i++
		}
		if i == 0 {
			return nil, false
		}
		num := s[:i]
		if strings.Count(num, ".") > 1 {
			return nil, false
		}
		s = s[i:]
		j := 0
		for j < len(s) && !(s[j] == '.' || (s[j] >= '0' && s[j] <= '9')) {
			j++
		}
		if j == 0 {
			return nil, false
		}
		toks = append(toks, token{num, s[:j]})
		s = s[j:]
	}
	return toks, true
}

// times24 multiplies a non-negative decimal literal by 24 exactly.
func times24(num string) (string, bool) {
	ip, fp := num, ""
	if k := strings.IndexByte(num, '.'); k >= 0 {
		ip, fp = num[:k], num[k+1:]
	}
	if ip == "" && fp == "" {
		return "", false
	}
	var n big.Int
	if _, ok := n.SetString("0"+ip+fp, 10); !ok {
		return "", false
	}
	n.Mul(&n, big.NewInt(24))
	digits := n.String()
	if len(fp) == 0 {
		return digits, true
	}
	for len(digits) <= len(fp) {
		digits = "0" + digits
	}
	return digits[:len(digits)-len(fp)] + "." + digits[len(digits)-len(fp):], true
}

// rewriteDays turns every "<n>d" term into the equal "<24n>h" term.
// hasDay: at least one term used the day unit; fracDays: number of day terms with a fraction.
func rewriteDays(s string) (out string, hasDay bool, fracDays int, ok bool) {
	sign := ""
	body := s
	if body != "" && (body[0] == '-' || body[0] == '+') {
		sign, body = body[:1], body[1:]
	}
	toks, tok := tokenize(body)
	if !tok {
		return s, false, 0, true
	}
	var sb strings.Builder
	sb.WriteString(sign)
	for _, tk := range toks {
		if tk.unit == "d" {
			h, good := times24(tk.num)
			if !good {
				// "." alone: keep the term, the standard parser rejects "d"
				sb.WriteString(tk.num + tk.unit)
				continue
			}
			hasDay = true
			if strings.Contains(tk.num, ".") && strings.Trim(tk.num[strings.IndexByte(tk.num, '.')+1:], "0") != "" {
				fracDays++
			}
			sb.WriteString(h + "h")
			continue
		}
		sb.WriteString(tk.num + tk.unit)
	}
	return sb.String(), hasDay, fracDays, true
}

func parseNoPanic(s string) (d time.Duration, err error, p any) {
	defer func() { p = recover() }()
	d, err = times.ParseDuration(s)
	return
}

func mustParseNoPanic(s string) (d time.Duration, p any) {
	defer func() { p = recover() }()
	return times.MustParseDuration(s), nil
}

func checkParse(t vlib.TB, test, s string) {
	got, gerr, p := parseNoPanic(s)
	if p != nil {
		t.Fatalf("C20 parser panics on %q: %v", s, p)
	}
	// the parser's twin without an error result: the same value for everything the parser accepts
	if m, mp := mustParseNoPanic(s); mp != nil || (gerr == nil && m != got) {
		t.Fatalf("C20 parser twins differ on %q: ParseDuration = %d (err %v), MustParseDuration = %d (panic %v)", s, got, gerr, m, mp)
	}
	ref, hasDay, fracDays, _ := rewriteDays(s)
	want, werr := time.ParseDuration(ref)
	key := ""
	labels := []string{}
	switch {
	case !hasDay:
		labels = append(labels, "no-day-unit")
		if (gerr == nil) != (werr == nil) {
			t.Fatalf("C20 accept/reject differs on %q: times.ParseDuration err=%v, time.ParseDuration err=%v", s, gerr, werr)
		}
		if gerr == nil && got != want {
			t.Fatalf("C20 value differs on %q: times.ParseDuration=%d, time.ParseDuration=%d", s, got, want)
		}
	case fracDays == 0:
		labels = append(labels, "integer-days")
		if (gerr == nil) != (werr == nil) {
			t.Fatalf("C20 day unit: %q err=%v but the equivalent %q gives err=%v in time.ParseDuration", s, gerr, ref, werr)
		}
		if gerr == nil && got != want {
			t.Fatalf("C20 day unit: %q = %d but the equivalent %q = %d", s, got, ref, want)
		}
	default:
		labels = append(labels, "fractional-days")
		// float rounding of the fractional part may differ by 1ns per fractional day term;
		// near the int64 limits that can flip accept/reject, which is not asserted.
		tol := int64(fracDays)
		nearLimit := werr == nil && (int64(want) > math.MaxInt64-tol-1 || int64(want) < math.MinInt64+tol+1)
		if gerr == nil && werr == nil {
			diff := int64(got) - int64(want)
			if diff < -tol || diff > tol {
				t.Fatalf("C20 day unit: %q = %d but the equivalent %q = %d (tolerance %dns)", s, got, ref, want, tol)
			}
		} else if (gerr == nil) != (werr == nil) && !nearLimit && !strings.Contains(ref, "922337203685") {
			// rejection for a reason other than a 1ns overflow flip
			if !(werr != nil && strings.Contains(werr.Error(), "invalid duration") && gerr == nil && absDur(got) > math.MaxInt64-1000) {
				t.Fatalf("C20 day unit: %q err=%v but the equivalent %q gives err=%v", s, gerr, ref, werr)
			}
		}
	}
	if gerr == nil || werr == nil {
		key = s
		labels = append(labels, "accepted")
	} else {
		labels = append(labels, "rejected")
	}
	vlib.Case(test, key, labels...)
	if key != "" {
		l := "accepted"
		if hasDay {
			l = "accepted-with-days"
		}
		vlib.Sample(test+"/"+l, map[string]any{"input": s, "value_ns": int64(got)})
	} else {
		vlib.Sample(test+"/rejected", map[string]any{"input": s, "err": fmt.Sprint(gerr)})
	}
}

func absDur(d time.Duration) int64 {
	if d < 0 {
		if d == math.MinInt64 {
			return math.MaxInt64
		}
		return int64(-d)
	}
	return int64(d)
}

var units = []string{"ns", "us", "µs", "μs", "ms", "s", "m", "h", "d"}
var junkUnits = []string{"", "x", "dd", "D", "S", "hs", "sec", "µ", "n", " ", "d ", "e3s", "-", "+", "\xc2", "\x00s"}

func genNumber() *rapid.Generator[string] {
	return rapid.OneOf(
		rapid.StringMatching(`[0-9]{1,6}`),
		rapid.StringMatching(`[0-9]{0,4}\.[0-9]{0,6}`),
		rapid.StringMatching(`[0-9]{17,21}`),
		rapid.StringMatching(`[0-9]{1,3}\.[0-9]{15,25}`),
		rapid.SampledFrom([]string{"0", "1", "9223372036854775807", "9223372036854775808", "9223372036", "9223372037",
			"2562047", "2562048", "106751", "106752", "153722867", "153722868", ".", "0.", ".0", "00", "1.", ".5", "0.000000001",
			"922337203685477580", "922337203685477581", "18446744073709551616", "0.9999999999999999999"}),
	)
}

func genDurString() *rapid.Generator[string] {
	valid := rapid.Custom(func(t *rapid.T) string {
		n := rapid.IntRange(1, 5).Draw(t, "terms")
		var sb strings.Builder
		sb.WriteString(rapid.SampledFrom([]string{"", "", "-", "+"}).Draw(t, "sign"))
		for i := 0; i < n; i++ {
			sb.WriteString(genNumber().Draw(t, "num"))
			if rapid.IntRange(0, 11).Draw(t, "junk") == 0 {
				sb.WriteString(rapid.SampledFrom(junkUnits).Draw(t, "junkunit"))
			} else {
				sb.WriteString(rapid.SampledFrom(units).Draw(t, "unit"))
			}
		}
		return sb.String()
	})
	mutated := rapid.Custom(func(t *rapid.T) string {
		s := []byte(valid.Draw(t, "base"))
		k := rapid.IntRange(1, 2).Draw(t, "edits")
		for i := 0; i < k && len(s) > 0; i++ {
			pos := rapid.IntRange(0, len(s)-1).Draw(t, "pos")
			switch rapid.IntRange(0, 2).Draw(t, "edit") {
			case 0:
				s = append(s[:pos], s[pos+1:]...)
			case 1:
				s[pos] = rapid.SampledFrom([]byte("0123456789.-+dhmsnuµ e\x00\xff")).Draw(t, "byte")
			default:
				c := rapid.SampledFrom([]byte("0123456789.-+dhmsnu ")).Draw(t, "ins")
				s = append(s[:pos], append([]byte{c}, s[pos:]...)...)
			}
		}
		return string(s)
	})
	alphabet := rapid.StringOfN(rapid.SampledFrom([]rune("0123456789.-+dhmsnuµμ")), 0, 12, -1)
	fromFormatter := rapid.Custom(func(t *rapid.T) string {
		d := genDuration().Draw(t, "d")
		if d == math.MinInt64 {
			d++
		}
		s, p := formatNoPanic(time.Duration(d), rapid.Bool().Draw(t, "frac"))
		if p != nil {
			return time.Duration(d).String()
		}
		return s
	})
	return rapid.OneOf(valid, valid, mutated, alphabet, rapid.String(), fromFormatter,
		rapid.Map(rapid.Int64(), func(d int64) string { return time.Duration(d).String() }))
}

func TestParseAgainstStdlib(t *testing.T) {
	for _, s := range []string{"", "0", "-0", "+0", "-", "+", ".", "1", "1d", "1.5d", "-1.5d", "106751d", "106752d", "106751d23h47m16s854ms775µs807ns",
		"-106751d23h47m16s854ms775µs808ns", "106751d23h47m16s854ms775µs808ns", "1d1d", "0d", ".d", "1.d", ".5d", "1dd", "1 d", "1D",
		"000000000000000000000000000000000000.0000000000000000000000000d", "9223372036854775807ns", "9223372036854775808ns", "-9223372036854775808ns", "2562047h47m16.854775807s", "1e3s", "1h1", "1us", "1µs", "1μs"} {
		checkParse(t, "TestParseAgainstStdlib", s)
	}
	rapid.Check(t, func(t *rapid.T) {
		s := genDurString().Draw(t, "s")
		checkParse(t, "TestParseAgainstStdlib", s)
		// the parser is a pure function: texts that were parsed a moment ago must not influence it. A family of
		// near-identical texts is parsed in a row - the text padded to a boundary length with whole terms, then
		// variants that share all but the last byte(s)
		if rapid.IntRange(0, 3).Draw(t, "family") == 2 {
			want := rapid.SampledFrom([]int{15, 16, 17, 31, 32, 33, 39, 40, 41, 63, 64, 65, 127, 128, 129, 255, 256, 257}).Draw(t, "familyLen")
			base := s
			for len(base)+2 <= want {
				base += "1h"
			}
			for len(base) < want {
				base = "0" + base
			}
			checkParse(t, "TestParseAgainstStdlib", base)
			if len(base) > 0 {
				for _, tail := range []string{"m", "s", "x", "\x00", "9", "", "hh"} {
					checkParse(t, "TestParseAgainstStdlib", base[:len(base)-1]+tail)
				}
				checkParse(t, "TestParseAgainstStdlib", base)
			}
		}
	})
}

func FuzzParseDuration(f *testing.F) {
	for _, s := range []string{"", "0", "1d", "1.5d2h", "-106751d23h47m16s854ms775µs808ns", "9223372036854775808ns", "1h1", ".5d", "1µs", "3000000000000000000000h"} {
		f.Add(s)
	}
	f.Fuzz(func(t *testing.T, s string) { checkParse(t, "FuzzParseDuration", s) })
}

// TestConcurrentRoundTrip: the helpers are pure functions of their argument, also when several goroutines
// use them at once. 8 goroutines format (all three entry points) and parse the same generated values over
// and over; every result must equal the one computed beforehand on a single goroutine.
func TestConcurrentRoundTrip(t *testing.T) {
	rapid.Check(t, func(t *rapid.T) {
		ds := rapid.SliceOfN(genDuration(), 8, 48).Draw(t, "durations")
		type ref struct{ compact, frac, short string }
		refs := make([]ref, len(ds))
		for i, d := range ds {
			refs[i] = ref{times.SmartDurationStringEx(time.Duration(d), false), times.SmartDurationStringEx(time.Duration(d), true), times.SmartDurationString(time.Duration(d))}
		}
		const G, rounds = 8, 40
		errs := make(chan string, G)
		var wg sync.WaitGroup
		for g := 0; g < G; g++ {
			wg.Add(1)
			go func(g int) {
				defer wg.Done()
				defer func() {
					if p := recover(); p != nil {
						errs <- fmt.Sprintf("goroutine %d panicked: %v", g, p)
					}
				}()
				for r := 0; r < rounds; r++ {
					for k := range ds {
						i := (k + g*5 + r) % len(ds)
						d := time.Duration(ds[i])
						if s := times.SmartDurationStringEx(d, false); s != refs[i].compact {
							errs <- fmt.Sprintf("SmartDurationStringEx(%d,false) = %q while other goroutines format, %q alone", ds[i], s, refs[i].compact)
							return
						}
						if s := times.SmartDurationStringEx(d, true); s != refs[i].frac {
							errs <- fmt.Sprintf("SmartDurationStringEx(%d,true) = %q while other goroutines format, %q alone", ds[i], s, refs[i].frac)
							return
						}
						if s := times.SmartDurationString(d); s != refs[i].short {
							errs <- fmt.Sprintf("SmartDurationString(%d) = %q while other goroutines format, %q alone", ds[i], s, refs[i].short)
							return
						}
						if back, err := times.ParseDuration(refs[i].frac); err != nil || back != d {
							errs <- fmt.Sprintf("ParseDuration(%q) = %d, %v while other goroutines parse; want %d", refs[i].frac, back, err, ds[i])
							return
						}
					}
				}
			}(g)
		}
		wg.Wait()
		close(errs)
		for e := range errs {
			t.Fatalf("C20 concurrent use: %s", e)
		}
		vlib.Case("TestConcurrentRoundTrip", fmt.Sprint(ds), "concurrent")
	})
}
