// C10 — logger hierarchy: lookup by name, inheritance at creation, isolation afterwards.
package c10

import (
	"context"
	"fmt"
	"io"
	"os"
	"sort"
	"strings"
	"testing"
	"time"

	"github.com/hedzr/is"
	"github.com/hedzr/logg/slog"
	"github.com/hedzr/logg/slog/verifharness/vlib"
	"pgregory.net/rapid"
)

func TestMain(m *testing.M) { vlib.Main(m) }

var devNull, _ = os.OpenFile(os.DevNull, os.O_WRONLY, 0)

type format int

const (
	fColor format = iota
	fLogfmt
	fJSON
)

func (f format) String() string { return [...]string{"colored", "logfmt", "json"}[f] }

type ctxKey struct{ n string }

func (k *ctxKey) String() string { return k.n }

// node is the model of one logger.
type node struct {
	id       int
	lg       slog.Logger
	entry    *slog.Entry // nil for package-level roots (their *Entry is not reachable without a call)
	name     string
	parent   *node
	children []*node
	level    slog.Level
	format   format
	utc      int // 0 unset 1 local 2 utc
	layout   string
	attrs    []vlib.ExpAttr
	skip     int
	ctxKeys  int
	wid      int // id of the private recording writer
	addStyle bool
	skipKids map[int]*node
	tsSeen   string // how the probe instant was printed last, while the logger's time style is not known to the model
}

type world struct {
	t      *rapid.T
	nodes  []*node
	log    *vlib.EventLog
	hist   []string
	serial int
	labels map[string]bool
	// the package's default level as the statement defines it: what it was when the case began,
	// changed by the package-level SetLevel only (never read back from the implementation)
	pkgLevel slog.Level
}

func (w *world) history() string {
	h := w.hist
	if len(h) > 60 {
		h = h[len(h)-60:]
	}
	return strings.Join(h, "; ")
}

func (w *world) fail(format string, args ...any) {
	w.t.Fatalf("C10 after [%s]: %s", w.history(), fmt.Sprintf(format, args...))
}

func (w *world) discrep(sig, format string, args ...any) {
	vlib.Discrep(w.t, sig, "C10 after [%s]: %s", w.history(), fmt.Sprintf(format, args...))
}

// adopt registers a logger returned by the package as a new model node and gives it its
// private recording writers (a Set* operation on that logger only).
func (w *world) adopt(lg slog.Logger, parent *node, name string, inherit *node) *node {
	n := &node{id: len(w.nodes), lg: lg, name: name, parent: parent, skipKids: map[int]*node{}}
	if e, ok := lg.(*slog.Entry); ok {
		n.entry = e
	}
	if inherit != nil {
		n.level, n.format = inherit.level, inherit.format
		// the statement says a child starts with the receiver's level and format; which zone mode and time layout it starts
		// with is not stated: unknown until they are set on the child itself
		n.utc, n.layout = -1, "?"
	}
	n.wid = 100 + n.id
	rec := vlib.NewRec(w.log, n.wid, 0).(io.Writer)
	if n.id%3 == 1 {
		// the "add" way: the standard devices stay first in this logger's lists (pointed at /dev/null while
		// the lists are built); lists of different loggers must stay independent
		realOut, realErr := os.Stdout, os.Stderr
		os.Stdout, os.Stderr = devNull, devNull
		lg.ResetWriters()
		lg.AddWriter(rec)
		lg.AddErrorWriter(rec)
		os.Stdout, os.Stderr = realOut, realErr
		n.addStyle = true
	} else {
		lg.SetWriter(rec)
		lg.SetErrorWriter(rec)
	}
	if parent != nil {
		parent.children = append(parent.children, n)
	}
	w.nodes = append(w.nodes, n)
	return n
}

func (w *world) find(e *slog.Entry) *node {
	for _, n := range w.nodes {
		if n.entry == e {
			return n
		}
	}
	return nil
}

// noteLevel: the process-wide debug mode that a level change may switch is read (is.DebugMode) when admission
// is judged, not predicted here - how it gets switched is C01's subject.
func (w *world) noteLevel(slog.Level) {}

// ---------- invariants checked after every step ----------

func (w *world) checkGetters() {
	if got := slog.GetLevel(); got != w.pkgLevel {
		w.discrep("C10/isolation", "the package default level (GetLevel) is %v; it was %v when the case began / after the last package-level SetLevel, and only that function may change it", got, w.pkgLevel)
	}
	for _, n := range w.nodes {
		lg := n.lg
		if lg.Level() != n.level {
			w.discrep("C10/isolation", "logger #%d %q: Level() = %v, model says %v", n.id, n.name, lg.Level(), n.level)
		}
		if lg.JSONMode() != (n.format == fJSON) || lg.ColorMode() != (n.format == fColor) {
			w.discrep("C10/isolation", "logger #%d %q: JSONMode()=%v ColorMode()=%v, model says %v", n.id, n.name, lg.JSONMode(), lg.ColorMode(), n.format)
		}
		if lg.Skip() != n.skip {
			w.discrep("C10/isolation", "logger #%d %q: Skip() = %d, model says %d", n.id, n.name, lg.Skip(), n.skip)
		}
		if lg.Name() != n.name {
			w.fail("logger #%d: Name() = %q, model says %q", n.id, lg.Name(), n.name)
		}
		var wantParent *slog.Entry
		if n.parent != nil {
			wantParent = n.parent.entry
			if n.parent.entry == nil {
				wantParent = lg.Parent() // parent is a package-level root: its *Entry is first seen here
				n.parent.entry = wantParent
			}
		}
		if lg.Parent() != wantParent {
			w.fail("logger #%d %q: Parent() is not the logger it was created from", n.id, n.name)
		}
		root := n
		for root.parent != nil {
			root = root.parent
		}
		if root.entry != nil && lg.Root() != root.entry {
			w.fail("logger #%d %q: Root() is not the root of its tree (#%d)", n.id, n.name, root.id)
		}
		if n.parent == nil && lg.Parent() != nil {
			w.fail("root logger #%d has a parent", n.id)
		}
	}
}

func (w *world) subtree(n *node, depth int, out map[*node]int) {
	out[n] = depth
	for _, c := range n.children {
		w.subtree(c, depth+1, out)
	}
}

func (w *world) checkTree(n *node) {
	want := map[*node]int{}
	w.subtree(n, 0, want)
	seen := map[*slog.Entry]int{}
	n.lg.Each(func(l *slog.Entry, depth int) {
		seen[l]++
		m := w.find(l)
		if m == nil {
			if n.entry == nil && depth == 0 {
				n.entry = l
				m = n
			} else {
				w.fail("Each from #%d visits a logger %q the history never created", n.id, l.Name())
			}
		}
		if d, ok := want[m]; !ok {
			w.fail("Each from #%d visits #%d %q which is not in its subtree", n.id, m.id, m.name)
		} else if d != depth {
			w.fail("Each from #%d visits #%d at depth %d, its distance is %d", n.id, m.id, depth, d)
		}
	})
	for m := range want {
		if m.entry != nil && seen[m.entry] != 1 {
			w.discrep("C10/each", "Each from #%d visits #%d %q %d times, want exactly once", n.id, m.id, m.name, seen[m.entry])
		}
	}
	// Sublogger: nil iff no node of the subtree has that name, else a node of the subtree with that name
	names := map[string]bool{}
	for m := range want {
		names[m.name] = true
	}
	probe := []string{"no-such-logger"}
	for nm := range names {
		probe = append(probe, nm)
	}
	sort.Strings(probe)
	for _, nm := range probe {
		got := n.lg.Sublogger(nm)
		if !names[nm] {
			if got != nil {
				w.fail("Sublogger(%q) from #%d returns a logger although none of the subtree has that name", nm, n.id)
			}
			continue
		}
		if got == nil {
			w.fail("Sublogger(%q) from #%d returns nil although the subtree has a logger of that name", nm, n.id)
		}
		if got.Name() != nm {
			w.fail("Sublogger(%q) from #%d returns a logger named %q", nm, n.id, got.Name())
		}
		if m := w.find(got); m != nil {
			if _, ok := want[m]; !ok {
				w.fail("Sublogger(%q) from #%d returns #%d, which is outside its subtree", nm, n.id, m.id)
			}
		}
	}
}

func classify(p []byte) string {
	switch {
	case len(p) > 0 && p[0] == '{':
		if _, err := vlib.DecodeJSONRecord(p); err == nil {
			return "json"
		}
		return "broken-json"
	case strings.Contains(string(p), "\x1b["):
		return "colored"
	}
	if pairs, err := vlib.ParseLogfmtRecord(p); err == nil && len(pairs) >= 3 {
		return "logfmt"
	}
	return "unknown"
}

var levelModel = vlib.NewLevelModel()

// probe emits records on one logger and compares everything observable with the model.
func (w *world) probe(n *node) {
	// gating
	for _, sev := range []slog.Level{slog.ErrorLevel, slog.WarnLevel, slog.InfoLevel, slog.DebugLevel, slog.TraceLevel, slog.OKLevel} {
		if got, want := n.lg.Enabled(sev), levelModel.Admit(n.level, sev, is.DebugMode()); got != want {
			w.discrep("C10/isolation", "logger #%d %q (model level %v): Enabled(%v) = %v, want %v", n.id, n.name, n.level, sev, got, want)
		}
	}
	// attributes and format through a normal call (Print is admitted unless the logger is Off)
	for _, inherit := range []bool{false, true} {
		flags := vlib.BaseFlags
		if inherit {
			flags |= slog.LattrsR
		}
		slog.SetFlags(flags)
		before := w.log.Len()
		n.lg.Print("hierarchy probe")
		evs := w.log.Snapshot()[before:]
		var mine [][]byte
		for _, e := range evs {
			if e.Kind != "write" {
				continue
			}
			if e.W != n.wid {
				w.discrep("C10/isolation", "a record of logger #%d %q arrived at the private writer of logger #%d", n.id, n.name, e.W-100)
			} else {
				mine = append(mine, e.Payload)
			}
		}
		if n.level == slog.OffLevel {
			if len(mine) != 0 {
				w.fail("logger #%d is Off but emitted", n.id)
			}
			continue
		}
		if len(mine) != 1 {
			w.discrep("C10/isolation", "logger #%d %q: probe produced %d records on its own writer, want 1", n.id, n.name, len(mine))
			continue
		}
		p := mine[0]
		if got := classify(p); got != n.format.String() {
			w.discrep("C10/isolation", "logger #%d %q should be %v but its record looks %s: %q", n.id, n.name, n.format, got, p)
			continue
		}
		var sources []vlib.ExpAttr
		if inherit {
			var chain []*node
			for m := n.parent; m != nil; m = m.parent {
				chain = append([]*node{m}, chain...)
			}
			for _, m := range chain {
				sources = append(sources, m.attrs...)
			}
		}
		sources = append(sources, n.attrs...)
		exp := vlib.ExpRecord{LoggerName: n.name, LevelName: "always", Msg: "hierarchy probe", Attrs: sources}
		var prob *vlib.Problem
		switch n.format {
		case fJSON:
			prob = vlib.CheckJSONRecord(p, exp)
		case fLogfmt:
			exp.QuotingNotJudged = true // quoting is C05's clause
			prob = vlib.CheckLogfmtRecord(p, exp, false)
		default:
			txt := strings.SplitN(vlib.SimulateSGR(p).Text, "\n", 2)[0]
			i := strings.Index(txt, "hierarchy probe")
			if i < 0 {
				prob = &vlib.Problem{Msg: "message not found in colored record"}
				break
			}
			rest := strings.TrimLeft(txt[i+len("hierarchy probe"):], " ")
			pairs, err := vlib.ParseLogfmtRecord([]byte(rest + "\n"))
			if err != nil {
				prob = &vlib.Problem{Msg: err.Error()}
			} else if err := vlib.MatchLogfmtAttrs(pairs, vlib.Normalize(sources), false); err != nil {
				prob = &vlib.Problem{Msg: err.Error()}
			}
			if n.name != "" && !strings.Contains(txt[:i], n.name+" ") {
				prob = &vlib.Problem{Msg: "logger name missing"}
			}
		}
		if prob != nil {
			w.discrep("C10/isolation", "logger #%d %q (inherit flag %v): record does not carry the model's name/attributes: %s", n.id, n.name, inherit, prob.Msg)
		}
	}
	slog.SetFlags(vlib.BaseFlags)
	// timestamp zone and layout through an explicit instant
	if n.level != slog.OffLevel && n.format != fColor {
		known := n.utc >= 0 && n.layout != "?"
		ts := time.Date(2024, 3, 9, 22, 30, 15, 123456789, time.FixedZone("", 5*3600+1800))
		before := w.log.Len()
		n.lg.(slog.LogSlogAware).WriteThru(context.Background(), slog.AlwaysLevel, ts, 0, "ts probe", nil)
		for _, e := range w.log.Snapshot()[before:] {
			if e.Kind != "write" || e.W != n.wid {
				continue
			}
			layout := n.layout
			if layout == "" {
				layout = "15:04:05.000000Z07:00"
			}
			want := ts
			if n.utc == 2 { // BaseFlags carry LlocalTime: unset mode means the instant's own zone
				want = ts.UTC()
			}
			var got string
			if n.format == fJSON {
				if o, err := vlib.DecodeJSONRecord(e.Payload); err == nil {
					got, _ = o.Vals["time"].(string)
				}
			} else if pairs, err := vlib.ParseLogfmtRecord(e.Payload); err == nil && len(pairs) > 0 {
				got = pairs[0].Str
			}
			switch {
			case !known:
				// the time style this logger started with is not stated - but it is ITS style: the same instant reads the
				// same until one of its own Set calls changes that, whatever happens to other loggers meanwhile
				if n.tsSeen != "" && got != n.tsSeen {
					w.discrep("C10/isolation", "logger #%d %q: the same instant was printed as %q before and is printed as %q now, and none of its own time settings was changed in between", n.id, n.name, n.tsSeen, got)
				}
				n.tsSeen = got
				w.labels["time-style-of-a-new-child-watched"] = true
			case got != want.Format(layout):
				w.discrep("C10/isolation", "logger #%d %q (utc mode %d, layout %q): timestamp %q, want %q", n.id, n.name, n.utc, n.layout, got, want.Format(layout))
			}
		}
	}
}

// ---------- operations ----------

func (w *world) freshName() string {
	w.serial++
	return fmt.Sprintf("n%d", w.serial)
}

// childName draws a name for a new direct child of n: usually unused, sometimes the name of
// a logger elsewhere in the forest (a grandchild, an ancestor, n itself, a sibling) - as long as no
// direct child of n has it, New must create a new direct child.
func (w *world) childName(n *node) string {
	if rapid.IntRange(0, 2).Draw(w.t, "reuseForeignName") == 0 {
		var cands []string
		for _, m := range w.nodes {
			if m.name == "" || strings.Contains(m.name, "/") {
				continue
			}
			direct := false
			for _, c := range n.children {
				if c.name == m.name {
					direct = true
				}
			}
			if !direct {
				cands = append(cands, m.name)
			}
		}
		if len(cands) > 0 {
			w.labels["new-with-name-used-elsewhere"] = true
			return rapid.SampledFrom(cands).Draw(w.t, "foreignName")
		}
	}
	return w.freshName()
}

func genOwnAttrs(t *rapid.T) []vlib.ExpAttr {
	// 0: an empty list (With(), WithAttrs(), Set() ... are calls like any other: a With... still returns a new child)
	n := rapid.IntRange(0, 3).Draw(t, "nattrs")
	var out []vlib.ExpAttr
	for i := 0; i < n; i++ {
		k := rapid.StringMatching(`[a-e]`).Draw(t, "akey")
		if rapid.Bool().Draw(t, "aint") {
			out = append(out, vlib.ExpAttr{Key: k, Val: vlib.Value{Kind: "int", V: rapid.IntRange(0, 999).Draw(t, "aval")}})
		} else {
			out = append(out, vlib.ExpAttr{Key: k, Val: vlib.Value{Kind: "string", V: rapid.StringMatching(`[a-z]{1,5}`).Draw(t, "astr")}})
		}
	}
	return out
}

// clobber overwrites every element of an argument slice after the call that received it returned: the caller
// owns the slice and may reuse it (a logger that kept a reference to it would change its attributes now).
func clobber(sl []slog.Attr) {
	for i := range sl {
		sl[i] = slog.NewAttr("clobbered-by-the-caller", i)
	}
}

func clobberAny(sl []any) {
	for i := range sl {
		sl[i] = "clobbered-by-the-caller"
	}
}

// slice values handed to several loggers (see setting.shared); rebuilt for every case
var (
	sharedExp  [2][]vlib.ExpAttr
	sharedPool [2]slog.Attrs
)

func resetShared() {
	sharedExp[0] = []vlib.ExpAttr{{Key: "sh", Val: vlib.Value{Kind: "string", V: "zero"}}}
	sharedExp[1] = []vlib.ExpAttr{{Key: "sa", Val: vlib.Value{Kind: "int", V: 7}}, {Key: "sb", Val: vlib.Value{Kind: "string", V: "one"}}}
	for i := range sharedPool {
		a := make(slog.Attrs, 0, 8) // spare capacity: appending through one logger must not show in another
		sharedPool[i] = append(a, vlib.AttrsOf(sharedExp[i])...)
	}
}

var layouts = []string{time.RFC3339, time.RFC3339Nano, "2006-01-02 15:04:05.000 -0700", time.RFC1123Z}

type setting struct {
	shared slog.Attrs // attrs1 only: the very slice value also given to other loggers
	kind   string
	level  slog.Level
	bools  []bool
	layout []string
	attrs  []vlib.ExpAttr
	skip   int
	nkeys  int
}

func (s setting) String() string {
	switch s.kind {
	case "level":
		return fmt.Sprintf("Level(%v)", s.level)
	case "json", "color", "utc":
		return fmt.Sprintf("%sMode%v", s.kind, s.bools)
	case "timeformat":
		return fmt.Sprintf("TimeFormat%q", s.layout)
	case "attrs", "attrs1", "kv":
		return fmt.Sprintf("%s[%s]", s.kind, vlib.Describe(s.attrs))
	case "skip":
		return fmt.Sprintf("Skip(%d)", s.skip)
	case "ctxkeys":
		return fmt.Sprintf("ContextKeys(%d)", s.nkeys)
	}
	return s.kind
}

func genSetting(t *rapid.T, allowSkip bool) setting {
	kinds := []string{"level", "json", "color", "utc", "timeformat", "attrs", "attrs1", "kv", "ctxkeys", "writer", "errwriter"}
	if allowSkip {
		kinds = append(kinds, "skip")
	}
	s := setting{kind: rapid.SampledFrom(kinds).Draw(t, "setting")}
	switch s.kind {
	case "level":
		s.level = rapid.SampledFrom(vlib.Builtins).Draw(t, "level")
	case "json", "color", "utc":
		s.bools = rapid.SliceOfN(rapid.Bool(), 0, 2).Draw(t, "bools")
	case "timeformat":
		s.layout = rapid.SliceOfN(rapid.SampledFrom(layouts), 0, 2).Draw(t, "layouts")
	case "attrs", "attrs1", "kv":
		s.attrs = genOwnAttrs(t)
		if (s.kind == "attrs1" || s.kind == "kv") && rapid.Bool().Draw(t, "sharedSlice") {
			// one of a few slice values that the whole case shares; built with spare capacity
			i := rapid.IntRange(0, 1).Draw(t, "whichShared")
			s.attrs = sharedExp[i]
			s.shared = sharedPool[i]
		}
	case "skip":
		s.skip = rapid.IntRange(0, 3).Draw(t, "skip")
	case "ctxkeys":
		s.nkeys = rapid.IntRange(0, 2).Draw(t, "nkeys")
	}
	return s
}

func lastBool(bs []bool, def bool) bool {
	for _, b := range bs {
		def = b
	}
	return def
}

// applyModel updates a model node for a setting.
func (w *world) applyModel(n *node, s setting) {
	switch s.kind {
	case "level":
		n.level = s.level
		w.noteLevel(s.level)
	case "json":
		if lastBool(s.bools, true) {
			n.format = fJSON
		} else if n.format == fJSON {
			n.format = fLogfmt
		}
	case "color":
		if lastBool(s.bools, true) {
			n.format = fColor
		} else {
			n.format = fLogfmt
		}
	case "utc":
		n.tsSeen = ""
		n.utc = 2
		for _, b := range s.bools {
			if b {
				n.utc = 2
			} else {
				n.utc = 1
			}
		}
	case "timeformat":
		n.tsSeen = ""
		n.layout = "?" // which layout a call without any selects no statement says: unknown until one is given
		for _, l := range s.layout {
			if l != "" {
				n.layout = l
			}
		}
	case "attrs", "attrs1", "kv":
		n.attrs = append(n.attrs, s.attrs...)
		if s.shared != nil {
			w.labels["shared-attrs-slice"] = true
		}
	case "skip":
		n.skip = s.skip
	case "ctxkeys":
		n.ctxKeys += s.nkeys
	case "writer", "errwriter":
		// the harness re-installs the private writers right after (see callers)
	}
}

func keysFor(n int) []any {
	var ks []any
	for i := 0; i < n; i++ {
		ks = append(ks, &ctxKey{fmt.Sprintf("ck%d", i)})
	}
	return ks
}

// doSet performs the Set* call and returns what the package returned.
func (w *world) doSet(n *node, s setting) *slog.Entry {
	lg := n.lg
	switch s.kind {
	case "level":
		return lg.SetLevel(s.level)
	case "json":
		return lg.SetJSONMode(s.bools...)
	case "color":
		return lg.SetColorMode(s.bools...)
	case "utc":
		return lg.SetUTCMode(s.bools...)
	case "timeformat":
		return lg.SetTimeFormat(s.layout...)
	case "attrs":
		sl := []slog.Attr(vlib.AttrsOf(s.attrs))
		defer clobber(sl)
		return lg.SetAttrs(sl...)
	case "attrs1":
		if s.shared != nil {
			return lg.SetAttrs1(s.shared)
		}
		return lg.SetAttrs1(vlib.AttrsOf(s.attrs))
	case "kv":
		if s.shared != nil {
			return lg.Set(s.shared) // the shared list as ONE argument of type Attrs
		}
		var args []any
		for _, a := range vlib.AttrsOf(s.attrs) {
			args = append(args, a.Key(), a.Value())
		}
		defer clobberAny(args)
		return lg.Set(args...)
	case "skip":
		lg.SetSkip(s.skip)
		return nil
	case "ctxkeys":
		return lg.SetContextKeys(keysFor(s.nkeys)...)
	case "writer":
		return lg.SetWriter(vlib.NewRec(w.log, n.wid, 0).(io.Writer))
	default:
		return lg.SetErrorWriter(vlib.NewRec(w.log, n.wid, 0).(io.Writer))
	}
}

// doWith performs the With* call.
func (w *world) doWith(n *node, s setting, wid int) *slog.Entry {
	lg := n.lg
	switch s.kind {
	case "level":
		return lg.WithLevel(s.level)
	case "json":
		return lg.WithJSONMode(s.bools...)
	case "color":
		return lg.WithColorMode(s.bools...)
	case "utc":
		return lg.WithUTCMode(s.bools...)
	case "timeformat":
		return lg.WithTimeFormat(s.layout...)
	case "attrs":
		sl := []slog.Attr(vlib.AttrsOf(s.attrs))
		defer clobber(sl)
		return lg.WithAttrs(sl...)
	case "attrs1":
		if s.shared != nil {
			return lg.WithAttrs1(s.shared)
		}
		return lg.WithAttrs1(vlib.AttrsOf(s.attrs))
	case "kv":
		if s.shared != nil {
			return lg.With(s.shared)
		}
		var args []any
		for _, a := range vlib.AttrsOf(s.attrs) {
			args = append(args, a.Key(), a.Value())
		}
		defer clobberAny(args)
		return lg.With(args...)
	case "skip":
		return lg.WithSkip(s.skip)
	case "ctxkeys":
		return lg.WithContextKeys(keysFor(s.nkeys)...)
	case "writer":
		return lg.WithWriter(vlib.NewRec(w.log, wid, 0).(io.Writer))
	default:
		return lg.WithErrorWriter(vlib.NewRec(w.log, wid, 0).(io.Writer))
	}
}

func toOpt(s setting) any {
	switch s.kind {
	case "level":
		return slog.WithLevel(s.level)
	case "json":
		return slog.WithJSONMode(s.bools...)
	case "color":
		return slog.WithColorMode(s.bools...)
	case "utc":
		return slog.WithUTCMode(s.bools...)
	case "timeformat":
		return slog.WithTimeFormat(s.layout...)
	case "attrs":
		return slog.WithAttrs(vlib.AttrsOf(s.attrs)...)
	case "attrs1":
		if s.shared != nil {
			return slog.WithAttrs1(s.shared)
		}
		return slog.WithAttrs1(vlib.AttrsOf(s.attrs))
	case "kv":
		if s.shared != nil {
			return slog.With(s.shared)
		}
		var args []any
		for _, a := range vlib.AttrsOf(s.attrs) {
			args = append(args, a.Key(), a.Value())
		}
		return slog.With(args...)
	}
	return nil
}

func (w *world) step() {
	t := w.t
	n := w.nodes[rapid.IntRange(0, len(w.nodes)-1).Draw(t, "logger")]
	switch k := rapid.IntRange(0, 11).Draw(t, "op"); {
	case k == 0: // package-level New
		var opts []setting
		args := []any{}
		name := ""
		if rapid.Bool().Draw(t, "named") {
			name = w.freshName()
			args = append(args, name)
			for i := rapid.IntRange(0, 2).Draw(t, "nopts"); i > 0; i-- {
				s := genSetting(t, false)
				if o := toOpt(s); o != nil {
					opts = append(opts, s)
					args = append(args, o)
				}
			}
		}
		w.hist = append(w.hist, fmt.Sprintf("slog.New(%q,%v)", name, opts))
		lg := slog.New(args...)
		m := w.adopt(lg, nil, name, nil)
		m.level, m.format = w.pkgLevel, fColor // colored, at the package's current default level
		for _, s := range opts {
			w.applyModel(m, s)
		}
		if lg.Parent() != nil {
			w.fail("a logger created with the package-level New has a parent")
		}
		w.labels["pkg-new"] = true
	case k <= 2: // New on a logger: fresh name, existing child's name, "" or no argument
		mode := rapid.SampledFrom([]string{"fresh", "fresh", "existing", "empty", "noargs"}).Draw(t, "newMode")
		if mode == "existing" && len(n.children) == 0 {
			mode = "fresh"
		}
		switch mode {
		case "existing":
			c := n.children[rapid.IntRange(0, len(n.children)-1).Draw(t, "child")]
			// a lookup may carry options (the call is written the same way whether or not the child exists already):
			// it is an operation on the receiver, the existing child is returned as it is
			args := []any{c.name}
			var opts []setting
			if rapid.Bool().Draw(t, "lookupWithOptions") {
				for i := rapid.IntRange(1, 2).Draw(t, "nopts"); i > 0; i-- {
					s := genSetting(t, false)
					if o := toOpt(s); o != nil {
						opts = append(opts, s)
						args = append(args, o)
					}
				}
				w.labels["lookup-with-options"] = true
			}
			w.hist = append(w.hist, fmt.Sprintf("#%d.New(%q,%v)[existing #%d]", n.id, c.name, opts, c.id))
			got := n.lg.New(args...)
			if got != c.entry {
				w.discrep("C10/lookup-by-name", "#%d.New(%q) did not return the existing direct child #%d of that name (it returned a logger named %q, parent match %v)",
					n.id, c.name, c.id, got.Name(), got.Parent() == n.entry)
				// keep the model usable: adopt the stray logger
				if w.find(got) == nil {
					w.adopt(got, n, got.Name(), n)
				}
			}
			w.labels["new-existing-name"] = true
		default:
			var args []any
			name := ""
			var opts []setting
			if mode == "fresh" {
				name = w.childName(n)
				args = append(args, name)
			} else if mode == "empty" {
				args = append(args, "")
			}
			// options follow the name - or come first when no name is given at all
			for i := rapid.IntRange(0, 2).Draw(t, "nopts"); i > 0; i-- {
				s := genSetting(t, false)
				if o := toOpt(s); o != nil {
					opts = append(opts, s)
					args = append(args, o)
				}
			}
			if mode == "noargs" && len(opts) > 0 {
				w.labels["anonymous-child-with-options"] = true
			}
			w.hist = append(w.hist, fmt.Sprintf("#%d.New(%s %q,%v)", n.id, mode, name, opts))
			got := n.lg.New(args...)
			if w.find(got) != nil {
				w.fail("#%d.New(%s) returned an already existing logger", n.id, mode)
			}
			if name == "" {
				name = got.Name()
				if name == "" {
					w.fail("anonymous child has an empty name")
				}
				w.labels["anonymous-child"] = true
			}
			m := w.adopt(got, n, name, n)
			for _, s := range opts {
				w.applyModel(m, s)
			}
		}
	case k <= 5: // With*: a new child carrying the setting, receiver untouched
		s := genSetting(t, true)
		w.hist = append(w.hist, fmt.Sprintf("#%d.With%v", n.id, s))
		if s.kind == "skip" {
			got := n.lg.WithSkip(s.skip)
			if prev := n.skipKids[s.skip]; prev != nil {
				if got != prev.entry {
					w.fail("#%d.WithSkip(%d) must keep one child per skip count, got a different logger", n.id, s.skip)
				}
				// "returns a child carrying the new setting": also the kept child, whatever was done to it meanwhile
				prev.skip = s.skip
				w.labels["withskip-returns-kept-child"] = true
				break
			}
			if w.find(got) != nil {
				w.fail("#%d.WithSkip(%d) returned an unrelated existing logger", n.id, s.skip)
			}
			m := w.adopt(got, n, got.Name(), n)
			m.skip = s.skip
			n.skipKids[s.skip] = m
			break
		}
		wid := 100 + len(w.nodes)
		got := w.doWith(n, s, wid)
		if w.find(got) != nil {
			w.discrep("C10/with-returns-new", "#%d.With%v returned the existing logger #%d instead of a newly created child", n.id, s, w.find(got).id)
			break
		}
		m := w.adopt(got, n, got.Name(), n)
		w.applyModel(m, s)
		if s.kind == "level" {
			w.noteLevel(s.level)
		}
		w.labels["with"] = true
	case k <= 9: // Set*: changes the receiver only and returns it
		s := genSetting(t, true)
		w.hist = append(w.hist, fmt.Sprintf("#%d.Set%v", n.id, s))
		got := w.doSet(n, s)
		if n.entry == nil && got != nil {
			n.entry = got
		}
		if got != nil && got != n.entry {
			w.fail("#%d.Set%v did not return the receiver", n.id, s)
		}
		w.applyModel(n, s)
		if s.kind == "writer" || s.kind == "errwriter" {
			rec := vlib.NewRec(w.log, n.wid, 0).(io.Writer)
			n.lg.SetWriter(rec)
			n.lg.SetErrorWriter(rec)
			n.addStyle = false
		}
		w.labels["set"] = true
		if s.kind == "skip" && n.parent != nil {
			// the receiver may be the child its parent keeps for some WithSkip(k): asking the parent for that k
			// again must hand out this very child, carrying skip k once more
			for key, kept := range n.parent.skipKids {
				if kept == n && rapid.Bool().Draw(t, "askParentAgain") {
					w.hist = append(w.hist, fmt.Sprintf("#%d.WithSkip(%d)[kept #%d]", n.parent.id, key, n.id))
					if got := n.parent.lg.WithSkip(key); got != n.entry {
						w.fail("#%d.WithSkip(%d) must keep one child per skip count, got a different logger", n.parent.id, key)
					}
					n.skip = key
					w.labels["withskip-returns-kept-child"] = true
				}
			}
		}
	case k == 10 && rapid.Bool().Draw(t, "scopedPackageLevel"):
		// SaveLevelAndSet: the package level (and the default logger's) inside the scope, the saved PACKAGE level
		// for both after it
		l := rapid.SampledFrom(vlib.Builtins).Draw(t, "pkgLevel")
		saved := w.pkgLevel
		w.hist = append(w.hist, fmt.Sprintf("restore := slog.SaveLevelAndSet(%v)", l))
		restore := slog.SaveLevelAndSet(l)
		w.noteLevel(l)
		w.pkgLevel, w.nodes[0].level = l, l
		w.checkGetters()
		inside := slog.New()
		if inside.Level() != l {
			w.discrep("C10/isolation", "a logger made by the package-level New inside a SaveLevelAndSet(%v) scope starts at %v", l, inside.Level())
		}
		w.hist = append(w.hist, "restore()")
		restore()
		w.noteLevel(saved)
		w.pkgLevel, w.nodes[0].level = saved, saved
		w.labels["pkg-level-scope"] = true
	case k == 10: // package-level SetLevel: the default logger and future package-level loggers
		l := rapid.SampledFrom(vlib.Builtins).Draw(t, "pkgLevel")
		w.hist = append(w.hist, fmt.Sprintf("slog.SetLevel(%v)", l))
		slog.SetLevel(l)
		w.noteLevel(l)
		w.pkgLevel = l
		w.nodes[0].level = l // node 0 is the default logger
		w.labels["pkg-setlevel"] = true
	default:
		w.hist = append(w.hist, fmt.Sprintf("probe(#%d)", n.id))
		w.probe(n)
	}
}

func TestHierarchy(t *testing.T) {
	rapid.Check(t, func(t *rapid.T) {
		defer vlib.Canon()()
		resetShared()
		w := &world{t: t, log: vlib.NewEventLog(), labels: map[string]bool{}}
		// node 0: the default logger's subtree. The process-wide default logger keeps the children
		// of earlier cases (no public reset), so every case installs a fresh default logger.
		if vlib.ProductionMode() && slog.GetLevel() != slog.WarnLevel {
			t.Fatalf("C10: in a production process the package default level must be Warn before any SetLevel, got %v", slog.GetLevel())
		}
		w.pkgLevel = slog.GetLevel()
		def := slog.New("dflt")
		slog.SetDefault(def)
		d := w.adopt(def, nil, def.Name(), nil)
		d.level, d.format = w.pkgLevel, fColor // what the statement says about a logger made by the package-level New
		steps := rapid.IntRange(3, 40).Draw(t, "steps")
		for i := 0; i < steps; i++ {
			w.step()
			w.checkGetters()
			if i%5 == 4 {
				w.checkTree(w.nodes[rapid.IntRange(0, len(w.nodes)-1).Draw(t, "treeFrom")])
			}
		}
		for _, n := range w.nodes {
			if n.parent == nil {
				w.checkTree(n)
			}
		}
		for _, n := range w.nodes {
			w.probe(n)
		}
		w.checkGetters()

		key := ""
		if len(w.nodes) >= 3 && ((w.labels["with"] && w.labels["set"]) || w.labels["new-existing-name"] || w.labels["new-with-name-used-elsewhere"]) {
			key = strings.Join(w.hist, ";")
		}
		var ls []string
		for l := range w.labels {
			ls = append(ls, l)
		}
		ls = append(ls, fmt.Sprintf("production=%v", vlib.ProductionMode()))
		vlib.Case("TestHierarchy", key, ls...)
		if key != "" && vlib.WantSample("TestHierarchy") {
			vlib.Sample("TestHierarchy", map[string]any{"history": w.hist, "loggers": len(w.nodes)})
		}
	})
}

// TestAnonymousChildrenDistinct: every With... call must return a newly created child. Anonymous
// names come from a generator seeded with the wall clock, which the harness cannot own, so this is
// a stress test: many With* calls in a tight loop must give as many distinct children.
func TestAnonymousChildrenDistinct(t *testing.T) {
	defer vlib.Canon()()
	n := 20000
	if vlib.Thorough() {
		n = 200000
	}
	root := slog.New("stress")
	seen := map[*slog.Entry]bool{}
	names := map[string]bool{}
	dups := 0
	for i := 0; i < n; i++ {
		c := root.WithLevel(slog.InfoLevel)
		if seen[c] {
			dups++
		}
		seen[c] = true
		names[c.Name()] = true
	}
	vlib.Case("TestAnonymousChildrenDistinct", fmt.Sprintf("calls-%d", n), "stress")
	vlib.Case("TestAnonymousChildrenDistinct", fmt.Sprintf("distinct-%d", len(seen)), "stress")
	vlib.Extra("anonymous_children_calls", n)
	vlib.Extra("anonymous_children_distinct", len(seen))
	if dups > 0 {
		vlib.Discrep(t, "C10/with-returns-new", "C10 %d of %d consecutive root.WithLevel(...) calls returned an already existing child instead of a new one (%d distinct names)", dups, n, len(names))
	}
}

// TestManyChildren: lookup by name, WithSkip's one-child-per-count rule and the Each walk must hold for a logger
// with many direct children as they do for one with a few (the index behind them may change its representation).
func TestManyChildren(t *testing.T) {
	defer vlib.Canon()()
	for _, n := range []int{1, 7, 8, 9, 31, 32, 33, 34, 63, 64, 65, 127, 128, 129, 300, 1100} {
		parent := slog.New(fmt.Sprintf("many-%d", n))
		named := make([]*slog.Entry, n)
		skipped := make([]*slog.Entry, n)
		for i := 0; i < n; i++ {
			named[i] = parent.New(fmt.Sprintf("worker-%d", i))
			skipped[i] = parent.WithSkip(100 + i)
			// every child created so far is still found, under its name / its count
			for _, j := range []int{0, i / 2, i} {
				if got := parent.New(fmt.Sprintf("worker-%d", j)); got != named[j] {
					vlib.Discrep(t, "C10/lookup-by-name", "C10 a logger with %d direct children: New(%q) returned another logger than the child created under that name (its name: %q)", 2*(i+1), fmt.Sprintf("worker-%d", j), got.Name())
					return
				}
				if got := parent.WithSkip(100 + j); got != skipped[j] {
					vlib.Discrep(t, "C10/lookup-by-name", "C10 a logger with %d direct children: WithSkip(%d) returned another logger than the child kept for that count", 2*(i+1), 100+j)
					return
				}
			}
		}
		visits := map[*slog.Entry]int{}
		roots := 0
		parent.Each(func(l *slog.Entry, depth int) {
			visits[l]++
			if depth == 0 {
				roots++
			} else if depth != 1 {
				vlib.Discrep(t, "C10/tree", "C10 Each visited %q at depth %d: the tree has direct children only", l.Name(), depth)
			}
		})
		if roots != 1 || len(visits) != 2*n+1 {
			vlib.Discrep(t, "C10/tree", "C10 a logger with %d direct children: Each visited %d loggers (%d at depth 0), want %d", 2*n, len(visits), roots, 2*n+1)
			return
		}
		for i := 0; i < n; i++ {
			if visits[named[i]] != 1 || visits[skipped[i]] != 1 {
				vlib.Discrep(t, "C10/tree", "C10 a logger with %d direct children: Each visited child #%d %d time(s) and its WithSkip sibling %d time(s), want once each (%d loggers visited in all)",
					2*n, i, visits[named[i]], visits[skipped[i]], len(visits))
				return
			}
		}
		if got := parent.Sublogger(fmt.Sprintf("worker-%d", n-1)); got != named[n-1] {
			vlib.Discrep(t, "C10/tree", "C10 a logger with %d direct children: Sublogger(%q) does not find the child of that name", 2*n, fmt.Sprintf("worker-%d", n-1))
		}
		vlib.Case("TestManyChildren", fmt.Sprintf("children-%d", 2*n), "many-children")
	}
}

// TestManyAnonymousChildren: "every With... call returns a child of the receiver - a newly created one". The names of
// anonymous children are short and random; with many children under one parent a drawn name is in use already now and
// then, and the call must still hand out a NEW child. (anonymousChildren calls make a repeated name nearly certain.)
func TestManyAnonymousChildren(t *testing.T) {
	defer vlib.Canon()()
	n := anonymousChildren
	parent := slog.New("many-anonymous")
	seen := make(map[*slog.Entry]struct{}, n)
	for i := 0; i < n; i++ {
		var c *slog.Entry
		switch i % 4 {
		case 0:
			c = parent.WithLevel(slog.InfoLevel)
		case 1:
			c = parent.New()
		case 2:
			c = parent.WithJSONMode(true)
		default:
			c = parent.WithUTCMode(true)
		}
		if _, dup := seen[c]; dup {
			vlib.Discrep(t, "C10/with-returns-new", "C10 a logger with %d anonymous children: call #%d (%s) returned a child that an earlier call had handed out (name %q)", len(seen), i, []string{"WithLevel", "New()", "WithJSONMode", "WithUTCMode"}[i%4], c.Name())
			return
		}
		seen[c] = struct{}{}
	}
	visited := 0
	parent.Each(func(l *slog.Entry, depth int) { visited++ })
	if visited != n+1 {
		vlib.Discrep(t, "C10/tree", "C10 a logger with %d anonymous children: Each visited %d loggers, want %d", n, visited, n+1)
	}
	vlib.Case("TestManyAnonymousChildren", fmt.Sprintf("%d", n), "many-anonymous-children")
}

// anonymousChildren: children made by TestManyAnonymousChildren. The random names come from a generator seeded with the
// clock reduced to 31 bits, i.e. about 2.1e9 possible names: among n children n*n/4.3e9 repetitions are expected.
var anonymousChildren = func() int {
	if vlib.Thorough() {
		return 600000
	}
	return 250000
}()

// TestSharedArgumentSlices: a slice or Attrs value a caller hands to one logger still belongs to the caller - who may
// hand it to another logger, append to it or overwrite it. Directed (no generation): for every setter and builder that
// takes a list, two fresh loggers get the SAME list value (built with spare capacity), then each gets one more
// attribute of its own, then the caller scribbles over the list; each logger must print exactly what it was given.
func TestSharedArgumentSlices(t *testing.T) {
	defer vlib.Canon()()
	slog.SetFlags(vlib.BaseFlags)
	forms := []string{"SetAttrs1", "WithAttrs1", "WithAttrs1-option", "SetAttrs", "WithAttrs", "Set-kv", "With-kv", "New-kv"}
	for _, form := range forms {
		for _, preset := range []bool{false, true} {
			mk := func() slog.Attrs {
				l := make(slog.Attrs, 0, 16)
				return append(l, slog.NewAttr("s1", 1), slog.NewAttr("s2", "two"))
			}
			list := mk()
			kv := append(make([]any, 0, 16), "s1", 1, "s2", "two")
			log := vlib.NewEventLog()
			give := func(name string, id int) slog.Logger {
				var lg slog.Logger = slog.New(name)
				if preset {
					lg.Set("pre", id) // the logger has attributes already
				}
				switch form {
				case "SetAttrs1":
					lg.SetAttrs1(list)
				case "WithAttrs1":
					lg = lg.WithAttrs1(list)
				case "WithAttrs1-option":
					lg = lg.New("kid", slog.WithAttrs1(list))
				case "SetAttrs":
					lg.SetAttrs(list...)
				case "WithAttrs":
					lg = lg.WithAttrs(list...)
				case "Set-kv":
					lg.Set(kv...)
				case "With-kv":
					lg = lg.With(kv...)
				default:
					lg = lg.New(append([]any{"kid"}, kv...)...) // (a fresh argument list holding the same pairs)
				}
				w := vlib.NewRec(log, id, 0)
				lg.SetWriter(w).SetErrorWriter(w).SetLevel(slog.AlwaysLevel).SetJSONMode(true)
				return lg
			}
			a := give("shared-a", 1)
			b := give("shared-b", 2)
			a.Set("own", "a")
			b.Set("own", "b")
			a.SetAttrs(slog.NewAttr("more", 1))
			b.SetAttrs(slog.NewAttr("more", 2))
			for i := range list[:cap(list)][:4] {
				list[:cap(list)][i] = slog.NewAttr("scribbled-by-the-caller", i)
			}
			for i := range kv[:cap(kv)][:8] {
				kv[:cap(kv)][i] = "scribbled-by-the-caller"
			}
			for id, lg := range map[int]slog.Logger{1: a, 2: b} {
				before := log.Len()
				lg.Info("shared argument probe")
				var payload []byte
				for _, e := range log.Snapshot()[before:] {
					if e.W == id && e.Kind == "write" {
						payload = e.Payload
					}
				}
				o, err := vlib.DecodeJSONRecord(payload)
				if err != nil {
					t.Fatalf("C10 shared argument lists (%s, logger had attributes before=%v): logger %d printed %q: %v", form, preset, id, payload, err)
				}
				want := map[string]string{"s1": "1", "s2": "two", "own": map[int]string{1: "a", 2: "b"}[id], "more": fmt.Sprint(id)}
				if preset && !strings.HasPrefix(form, "With") && form != "New-kv" && form != "WithAttrs1-option" {
					want["pre"] = fmt.Sprint(id)
				}
				got := map[string]string{}
				for _, k := range o.Keys {
					if k == "time" || k == "logger" || k == "level" || k == "msg" || k == "caller" {
						continue
					}
					got[k] = fmt.Sprint(o.Vals[k])
				}
				for k, v := range want {
					if got[k] != v {
						vlib.Discrep(t, "C10/isolation", "C10 shared argument lists (%s, logger had attributes before=%v): two loggers were given the same list value, then one more attribute each, then the caller overwrote the list; logger %d prints %v, its own attributes are %v", form, preset, id, got, want)
						break
					}
				}
				if _, leaked := got["scribbled-by-the-caller"]; leaked {
					vlib.Discrep(t, "C10/isolation", "C10 shared argument lists (%s, logger had attributes before=%v): logger %d prints what the caller wrote into ITS list afterwards: %v", form, preset, id, got)
				}
			}
			vlib.Case("TestSharedArgumentSlices", fmt.Sprintf("%s/%v", form, preset), "shared-argument-list/"+form)
		}
	}
}
