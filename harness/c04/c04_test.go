// C04 — JSON mode: each record is one line of valid JSON decoding to what was logged.
package c04

import (
	"context"
	"fmt"
	"os"
	"path/filepath"
	"runtime"
	"strings"
	"testing"
	"time"
	"unicode/utf8"

	"github.com/hedzr/logg/slog"
	"github.com/hedzr/logg/slog/verifharness/vlib"
	"pgregory.net/rapid"
)

func TestMain(m *testing.M) { vlib.Main(m) }

const (
	custReg    = slog.Level(25) // registered as "notice"
	custTitled = slog.Level(27) // registered under the scenario's title, which may need quoting
	custRaw    = slog.Level(33) // unregistered: printed as L#33
)

var reserved = map[string]bool{"time": true, "level": true, "msg": true, "caller": true, "logger": true}

func genKey() *rapid.Generator[string] {
	return rapid.OneOf(
		rapid.StringMatching(`[a-z][a-z0-9_]{0,7}`),
		rapid.StringMatching(`[a-z][a-z0-9_]{0,7}`),
		vlib.GenAnyString(),
		rapid.SampledFrom([]string{"", "a.b", "k k", "k=v", `k"q`, `k\b`, "k\nl", "Time", "LEVEL", "error", "!BADKEY", "ключ", "k\x01", "k\xff"}),
	).Filter(func(k string) bool { return !reserved[k] })
}

func allKeysValid(as []vlib.ExpAttr) bool {
	for _, a := range as {
		if !utf8.ValidString(a.Key) {
			return false
		}
		if a.IsGroup && !allKeysValid(a.Group) {
			return false
		}
	}
	return true
}

func classes(msg string, as []vlib.ExpAttr, set map[string]bool, depth int) {
	hostile := func(s string) bool {
		return strings.ContainsAny(s, "\"\\\n\r\t\x00\x1b\x7f") || !utf8.ValidString(s) || strings.ContainsAny(s, "  ") || hasCtl(s)
	}
	if depth == 0 && hostile(msg) {
		set["hostile-msg"] = true
	}
	for _, a := range as {
		if hostile(a.Key) {
			set["hostile-key"] = true
		}
		if a.IsGroup {
			set[fmt.Sprintf("group-depth-%d", depth+1)] = true
			if len(a.Group) == 0 {
				set["empty-group"] = true
			}
			classes("", a.Group, set, depth+1)
			continue
		}
		set["kind:"+a.Val.Kind] = true
		switch v := a.Val.V.(type) {
		case string:
			if hostile(v) {
				set["hostile-string-value"] = true
			}
		case []byte:
			if hostile(string(v)) {
				set["hostile-bytes-value"] = true
			}
		}
	}
}

func hasCtl(s string) bool {
	for i := 0; i < len(s); i++ {
		if s[i] < 0x20 {
			return true
		}
	}
	return false
}

type scenario struct {
	Named    bool
	Caller   bool
	Sev      slog.Level
	FlagsHow int    // which public way sets the flags (vlib.SetFlagsVia)
	Disturb  int    // which scratch record is printed right before the record under test (vlib.Disturb; 0 none)
	Layout   string // the logger's own time layout (SetTimeFormat); "": none. It governs the record's time field only
	EP       string // name of the public entry point that issues the record when it is not written through (vlib.EntryPoints; "": LogAttrs)
	PathRepl string // with caller info: the source tree is registered as a known path with this replacement (it ends up in the caller field)
	How      int    // how the logger gets its format: 0 Set...Mode, 1 option of the package-level New, 2 option of New on a parent in another format, 3 With...Mode method
	Thru     bool   // WriteThru with an explicit timestamp, else LogAttrs
	Title    string // the title the level custTitled is registered under (RegisterLevel); "": a plain one
	Msg      string
	Attrs    []vlib.ExpAttr
	Args     []any
	TS       time.Time
	AsLogger bool // attributes attached to the logger (With) instead of the call
	Twin     bool // the same record is printed in the other formats first (vlib.DisturbTwin)
	DupFirst bool // a record with a repeated key among loose pairs is printed first (vlib.DisturbDupKeys)
	Twice    bool // with AsLogger: the logger prints the record twice, the second one is judged (its attributes are long-lived objects)
}

func here() uintptr {
	var pcs [1]uintptr
	runtime.Callers(1, pcs[:])
	return pcs[0]
}

// titleInUse is the title custTitled is registered under in the running case.
var titleInUse string

func levelName(l slog.Level) string {
	if n, ok := vlib.BuiltinNames[l]; ok {
		return n
	}
	if l == custReg {
		return "notice"
	}
	if l == custTitled {
		return titleInUse
	}
	// an unregistered level has no documented name: whatever Level.String() gives must be what is printed
	return l.String()
}

func run(t vlib.TB, test string, sc scenario, attrsForThru slog.Attrs) {
	defer vlib.Canon()()
	_ = slog.RegisterLevel(custReg, "notice", slog.RegWithTreatedAsLevel(slog.InfoLevel))
	titleInUse = sc.Title
	if titleInUse == "" {
		titleInUse = "titled"
	}
	if err := slog.RegisterLevel(custTitled, titleInUse, slog.RegWithTreatedAsLevel(slog.InfoLevel)); err != nil {
		titleInUse = custTitled.String() // refused: the level stays unregistered and prints whatever String() gives
	}
	flags := vlib.BaseFlags
	if sc.Caller {
		flags |= slog.Lcaller
	}
	vlib.SetFlagsVia(sc.FlagsHow, flags, slog.Lcaller|slog.Ldate|slog.LattrsR)
	log := vlib.NewEventLog()
	w := vlib.NewRec(log, 1, 0)
	name := ""
	var lg slog.Logger
	switch {
	case sc.How == 1 && sc.Named:
		name = "svc-json"
		lg = slog.New(name, slog.WithJSONMode()) // option form
	case sc.How == 2:
		parent := slog.New("parent-in-another-format")
		parent.SetColorMode(false)
		lg = parent.New("svc-json-kid", slog.WithJSONMode(true)) // option form on a child whose parent has another format
		name = "svc-json-kid"
	case sc.How == 3:
		parent := slog.New("parent")
		lg = parent.WithJSONMode(true) // method form: a new anonymous child
		name = lg.Name()
	default:
		if sc.Named {
			name = "svc-json"
			lg = slog.New(name)
		} else {
			lg = slog.New()
		}
		lg.SetJSONMode(true)
	}
	lg.SetWriter(w)
	lg.SetErrorWriter(w)
	lg.SetLevel(slog.AlwaysLevel)
	if sc.Layout != "" {
		lg.SetTimeFormat(sc.Layout)
	}

	exp := vlib.ExpRecord{LoggerName: name, LevelName: levelName(sc.Sev), Msg: sc.Msg, Attrs: sc.Attrs, Caller: sc.Caller,
		TimeLayout: "15:04:05.000000Z07:00", SkipContent: !allKeysValid(sc.Attrs)}
	if sc.Layout != "" {
		exp.TimeLayout = sc.Layout
	}
	if sc.Caller && sc.PathRepl != "" {
		cwd, _ := os.Getwd()
		slog.RemoveKnownPathMapping(cwd) // Canon puts the tables back
		slog.AddKnownPathMapping(filepath.Dir(cwd), sc.PathRepl)
	}
	vlib.Disturb(sc.Disturb)
	if sc.DupFirst {
		vlib.DisturbDupKeys("json")
	}
	if sc.Twin && !sc.Thru {
		vlib.DisturbTwin("json", sc.Sev, sc.Msg, sc.Args)
	}
	func() {
		defer func() {
			if p := recover(); p != nil {
				t.Fatalf("C04 call panicked: %v (msg %s attrs [%s])", p, vlib.Short(sc.Msg), vlib.Describe(sc.Attrs))
			}
		}()
		switch {
		case sc.Thru:
			ts := sc.TS
			exp.Time = &ts
			lg.(slog.LogSlogAware).WriteThru(context.Background(), sc.Sev, sc.TS, here(), sc.Msg, attrsForThru)
		case sc.AsLogger:
			lg.Set(sc.Args...)
			lg.LogAttrs(context.Background(), sc.Sev, sc.Msg)
			if sc.Twice {
				log.Reset()
				lg.LogAttrs(context.Background(), sc.Sev, sc.Msg)
			}
		default:
			issued := false
			for _, ep := range vlib.EntryPoints {
				if ep.Name == sc.EP && sc.EP != "" {
					if ep.Pkg {
						slog.SetDefault(lg) // Canon puts the original default logger back
					}
					ep.Call(lg, context.Background(), sc.Sev, sc.Msg, sc.Args)
					issued = true
				}
			}
			if !issued {
				lg.LogAttrs(context.Background(), sc.Sev, sc.Msg, sc.Args...)
			}
		}
	}()
	writes := log.Writes()
	if len(writes) != 1 {
		t.Fatalf("C04 harness expectation: exactly one record, got %d", len(writes))
	}
	if p := vlib.CheckJSONRecord(writes[0].Payload, exp); p != nil {
		vlib.Discrep(t, p.Sig, "C04 severity=%v named=%v caller=%v thru=%v msg=%s: %s", sc.Sev, sc.Named, sc.Caller, sc.Thru, vlib.Short(sc.Msg), p.Msg)
	}

	set := map[string]bool{}
	classes(sc.Msg, sc.Attrs, set, 0)
	key := ""
	nt := false
	for c := range set {
		if strings.HasPrefix(c, "hostile") || strings.HasPrefix(c, "group") || (strings.HasPrefix(c, "kind:") && c != "kind:string") {
			nt = true
		}
	}
	if nt {
		key = vlib.JoinSorted(set)
	}
	labels := []string{fmt.Sprintf("format-set-how=%d", sc.How), fmt.Sprintf("caller=%v", sc.Caller), fmt.Sprintf("named=%v", sc.Named), fmt.Sprintf("writethru=%v", sc.Thru)}
	for c := range set {
		labels = append(labels, c)
	}
	if exp.SkipContent {
		labels = append(labels, "framing-only(invalid-utf8-key)")
	}
	vlib.Case(test, key, labels...)
	if key != "" && vlib.WantSample(test) {
		vlib.Sample(test, map[string]any{"severity": int(sc.Sev), "msg": vlib.Short(sc.Msg), "attrs": vlib.Describe(sc.Attrs), "payload": vlib.Short(string(writes[0].Payload))})
	}
}

func genScenario(t *rapid.T) (scenario, slog.Attrs) {
	var sc scenario
	sc.Named = rapid.Bool().Draw(t, "named")
	sc.Caller = rapid.Bool().Draw(t, "caller")
	sevs := append(append([]slog.Level{}, vlib.Builtins...), custReg, custRaw, custTitled)
	sc.Sev = rapid.SampledFrom(sevs).Filter(func(l slog.Level) bool { return l != slog.OffLevel }).Draw(t, "severity")
	sc.Thru = rapid.Bool().Draw(t, "writeThru")
	sc.PathRepl = rapid.SampledFrom([]string{"", "", "", "C:\\src\\", "my \"quoted\" dir", "tab\there", "two\nlines", "back\\", "\u00fcml\u00e4ut"}).Draw(t, "knownPathReplacement")
	{
		// every public entry point that can carry this severity and attributes (the printf-style ones format the message)
		var names []string
		for _, ep := range vlib.EntryPointsFor(sc.Sev) {
			if ep.Kind != "printf" && ep.Kind != "verbose" && !ep.NoArg {
				names = append(names, ep.Name)
			}
		}
		if len(names) > 0 && rapid.Bool().Draw(t, "viaAnotherEntryPoint") {
			sc.EP = rapid.SampledFrom(names).Draw(t, "entryPoint")
		}
	}
	sc.How = rapid.SampledFrom([]int{0, 0, 1, 2, 3}).Draw(t, "howFormatIsSet")
	sc.Twin = rapid.IntRange(0, 3).Draw(t, "sameRecordInTheOtherFormatsFirst") == 0
	sc.DupFirst = rapid.IntRange(0, 5).Draw(t, "repeatedKeyRecordFirst") == 0
	sc.Twice = rapid.Bool().Draw(t, "loggerAttributesPrintedTwice")
	if sc.Sev == custTitled {
		sc.Title = rapid.SampledFrom([]string{"", "x\" msg=\"forged", "two\nlines", "cr\rlf\n", "back\\slash", "tab\there", "sp ace", "eq=sign", "\u00fcml\u00e4ut", "trailing\\", "esc\x1b[31m"}).Draw(t, "levelTitle")
	}
	sc.FlagsHow = rapid.SampledFrom([]int{0, 0, 1, 2, 3, 4}).Draw(t, "flagsHow")
	sc.Disturb = vlib.GenDisturb().Draw(t, "disturbance")
	sc.Layout = rapid.SampledFrom([]string{"", "", "", time.Kitchen, time.Stamp, "15:04", "15:04:05.000"}).Draw(t, "ownTimeLayout")
	sc.Msg = vlib.GenMsg().Draw(t, "msg")
	if sc.Sev == slog.AlwaysLevel && vlib.LooksBlank(sc.Msg) {
		sc.Msg += "x" // a blank Print is delivered as a bare newline (property C02), not as a record
	}
	strs := vlib.GenAnyString()
	sc.Attrs = vlib.GenAttrs(t, vlib.AttrGen{Keys: genKey(), Vals: vlib.GenValue(strs), MaxDepth: 4, MaxLen: 6, UniqueKeys: true}, 0)
	sc.TS = vlib.GenTime().Draw(t, "ts")
	var thruAttrs slog.Attrs
	if sc.Thru {
		thruAttrs = slog.Attrs(vlib.BuildAttrs(t, sc.Attrs))
	} else {
		sc.Args = vlib.BuildArgs(t, sc.Attrs)
		sc.AsLogger = rapid.IntRange(0, 4).Draw(t, "asLoggerAttrs") == 0
	}
	return sc, thruAttrs
}

func TestJSONRecords(t *testing.T) {
	rapid.Check(t, func(t *rapid.T) {
		sc, ta := genScenario(t)
		run(t, "TestJSONRecords", sc, ta)
	})
}

// FuzzJSON: byte-level fuzzing of message, key and values of several kinds.
func FuzzJSON(f *testing.F) {
	for _, s := range vlib.HostileStrings {
		f.Add(s, "k", s, []byte(s), int64(1), 1.5)
		f.Add("m", s, "v", []byte("b"), int64(-1), 0.0)
	}
	f.Fuzz(func(t *testing.T, msg, key, sval string, bval []byte, n int64, fl float64) {
		if reserved[key] {
			key += "_"
		}
		attrs := []vlib.ExpAttr{
			{Key: key, Val: vlib.Value{Kind: "string", V: sval}},
			{Key: key + "1", Val: vlib.Value{Kind: "bytes", V: bval}},
			{Key: key + "2", Val: vlib.Value{Kind: "int64", V: n}},
			{Key: key + "3", Val: vlib.Value{Kind: "float64", V: fl}},
			{Key: key + "4", IsGroup: true, Group: []vlib.ExpAttr{{Key: key, Val: vlib.Value{Kind: "error", V: fmt.Errorf("%s", sval)}}}},
		}
		var args []any
		for _, a := range attrs[:4] {
			args = append(args, slog.NewAttr(a.Key, a.Val.V))
		}
		args = append(args, slog.Group(key+"4", slog.NewAttr(key, attrs[4].Group[0].Val.V)))
		if vlib.LooksBlank(msg) {
			msg += "x"
		}
		run(t, "FuzzJSON", scenario{Named: true, Sev: slog.InfoLevel, Msg: msg, Attrs: attrs, Args: args}, nil)
	})
}
