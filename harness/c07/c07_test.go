// C07 — attribute assembly: sources, precedence, uniqueness and order.
package c07

import (
	"context"
	"fmt"
	"strings"
	"testing"

	"github.com/hedzr/logg/slog"
	"github.com/hedzr/logg/slog/verifharness/vlib"
	"pgregory.net/rapid"
)

func TestMain(m *testing.M) { vlib.Main(m) }

type ctxKeyStr struct{ name string }

func (k *ctxKeyStr) String() string { return k.name }

type ctxKeySpec struct {
	Name     string
	Stringer bool
	Present  bool
	Val      int
}

type scenario struct {
	Format  string
	Inherit bool             // LattrsR
	Chain   [][]vlib.ExpAttr // own attributes of each logger, outermost first; the last one logs
	HowSet  []int            // how each logger gets its attributes: 0 Set(args) 1 SetAttrs 2 With option at creation 3 SetAttrs1 4 SetAttrs1(NewAttrs(args))
	CtxKeys []ctxKeySpec
	CtxMode string // "ctx" | "nil" | "plain" (non-context verb)
	Call    []vlib.ExpAttr
	Verb    int
	// Common: one slog.Attrs value (with spare capacity) given to EVERY logger of the chain through
	// SetAttrs1 before its own attributes are set
	Common []vlib.ExpAttr
	// second record: after the first one, logger Mutate (index, -1 none) gets MoreAttrs, then the
	// last logger logs again with Call2
	FlagsHow  int // which public way sets the flags (vlib.SetFlagsVia)
	Disturb   int // which scratch record is printed right before the record under test (vlib.Disturb; 0 none)
	Mutate    int
	MoreAttrs []vlib.ExpAttr
	Call2     []vlib.ExpAttr
	// Pkg: the call is made through the package-level function of the same name, the logger being the default logger
	Pkg bool
	// ViaSkip[i]: logger i of the chain (i > 0) is made by WithSkip(1) on its parent instead of New(name)
	ViaSkip []bool
	// AncestorCtxKeys: the ancestors have a context key of their own ("anck") and the context holds a value for
	// it: only the LOGGING logger's keys count, so that value must never be printed
	AncestorCtxKeys bool
}

var counter int

// genList draws attributes from a small key alphabet so that collisions are frequent.
// Every occurrence carries a unique value so the winner is identifiable.
func genList(t *rapid.T, min, max, depth int) []vlib.ExpAttr {
	n := rapid.IntRange(min, max).Draw(t, "n")
	var out []vlib.ExpAttr
	for i := 0; i < n; i++ {
		k := rapid.StringMatching(`[a-f]{1,2}`).Draw(t, "key")
		counter++
		if depth < 2 && rapid.IntRange(0, 7).Draw(t, "group") == 0 {
			out = append(out, vlib.ExpAttr{Key: k, IsGroup: true, Group: genList(t, 0, 5, depth+1)})
			continue
		}
		if rapid.IntRange(0, 3).Draw(t, "str") == 0 {
			out = append(out, vlib.ExpAttr{Key: k, Val: vlib.Value{Kind: "string", V: fmt.Sprintf("v%d", counter)}})
		} else {
			out = append(out, vlib.ExpAttr{Key: k, Val: vlib.Value{Kind: "int", V: counter}})
		}
	}
	return out
}

func genScenario(t *rapid.T) scenario {
	var sc scenario
	counter = 0
	sc.Format = rapid.SampledFrom([]string{"json", "logfmt", "color"}).Draw(t, "format")
	sc.Inherit = rapid.Bool().Draw(t, "inherit")
	// the statement speaks of depth 1..4; fluent With... calls make deeper chains in real programs, so a few are drawn too
	depth := rapid.SampledFrom([]int{1, 2, 3, 4, 1, 2, 3, 4, 1, 2, 3, 4, 6, 9, 13}).Draw(t, "depth")
	big := -1
	if rapid.IntRange(0, 29).Draw(t, "bigOwnList") == 0 {
		big = rapid.IntRange(0, depth-1).Draw(t, "bigOwnListAt")
	}
	for i := 0; i < depth; i++ {
		if i == big {
			// a logger with more own attributes than any scratch list is pre-sized for (unique keys, unsorted)
			n := rapid.SampledFrom([]int{127, 128, 129, 130, 200, 300}).Draw(t, "bigOwnListLen")
			var l []vlib.ExpAttr
			for j := n - 1; j >= 0; j-- {
				counter++
				l = append(l, vlib.ExpAttr{Key: fmt.Sprintf("k%03d", (j*7)%n), Val: vlib.Value{Kind: "int", V: counter}})
			}
			sc.Chain = append(sc.Chain, l)
		} else if rapid.IntRange(0, 2).Draw(t, "emptyOwn") == 0 {
			sc.Chain = append(sc.Chain, nil)
		} else {
			sc.Chain = append(sc.Chain, genList(t, 1, 6, 0))
		}
		how := rapid.IntRange(0, 4).Draw(t, "how")
		via := i > 0 && rapid.IntRange(0, 3).Draw(t, "viaWithSkip") == 0
		if via && how == 2 {
			how = 0 // a WithSkip child takes no creation options
		}
		sc.HowSet = append(sc.HowSet, how)
		sc.ViaSkip = append(sc.ViaSkip, via)
	}
	sc.AncestorCtxKeys = depth > 1 && rapid.IntRange(0, 2).Draw(t, "ancestorContextKeys") == 0
	nk := rapid.IntRange(0, 3).Draw(t, "nctxkeys")
	stringKeys := map[string]bool{}
	for i := 0; i < nk; i++ {
		counter++
		k := ctxKeySpec{
			Name:     rapid.StringMatching(`[a-f]{1,2}`).Draw(t, "ctxkey"),
			Stringer: rapid.Bool().Draw(t, "stringerKey"),
			Present:  rapid.IntRange(0, 3).Draw(t, "present") != 0,
			Val:      counter,
		}
		if !k.Stringer {
			// two registered string keys with the same text are the same context key (one lookup result):
			// keep string keys distinct; Stringer keys are distinct objects even with equal text
			if stringKeys[k.Name] {
				continue
			}
			stringKeys[k.Name] = true
		}
		sc.CtxKeys = append(sc.CtxKeys, k)
	}
	sc.CtxMode = rapid.SampledFrom([]string{"ctx", "ctx", "nil", "plain"}).Draw(t, "ctxmode")
	switch rapid.IntRange(0, 3).Draw(t, "callsize") {
	case 0:
		sc.Call = nil
	case 1:
		sc.Call = genList(t, 1, 8, 0)
	case 2:
		sc.Call = genList(t, 13, 30, 0)
	default:
		sc.Call = genList(t, 31, 64, 0)
	}
	if big >= 0 && rapid.Bool().Draw(t, "bigOwnListAndNoArguments") {
		sc.Call = nil
	}
	sc.Verb = rapid.IntRange(0, 3).Draw(t, "verb")
	sc.Pkg = rapid.IntRange(0, 3).Draw(t, "viaPackageLevelFunction") == 0
	sc.FlagsHow = rapid.SampledFrom([]int{0, 0, 1, 2, 3, 4}).Draw(t, "flagsHow")
	sc.Disturb = vlib.GenDisturb().Draw(t, "disturbance")
	if rapid.IntRange(0, 3).Draw(t, "commonAttrs1") == 0 {
		sc.Common = []vlib.ExpAttr{{Key: "cm", Val: vlib.Value{Kind: "string", V: "common"}}}
	}
	sc.Mutate = -1
	if rapid.Bool().Draw(t, "secondRecord") {
		sc.Mutate = rapid.IntRange(-1, depth-1).Draw(t, "mutateLogger")
		if sc.Mutate >= 0 {
			sc.MoreAttrs = genList(t, 1, 3, 0)
		}
		if rapid.Bool().Draw(t, "call2") {
			sc.Call2 = genList(t, 0, 6, 0)
		}
		sc.Mutate += 0
	} else {
		sc.Mutate = -2 // no second record at all
	}
	return sc
}

func hasDup(as []vlib.ExpAttr) bool {
	seen := map[string]bool{}
	for _, a := range as {
		if seen[a.Key] {
			return true
		}
		seen[a.Key] = true
	}
	return false
}

func ascending(o *vlib.JObj, skip map[string]bool, path string) error {
	prev, have := "", false
	for _, k := range o.Keys {
		if skip[k] {
			continue
		}
		if have && !(prev < k) {
			return fmt.Errorf("members %q and %q of %sare not in ascending key order", prev, k, path)
		}
		prev, have = k, true
		if sub, ok := o.Vals[k].(*vlib.JObj); ok {
			if err := ascending(sub, nil, "group "+k+" "); err != nil {
				return err
			}
		}
	}
	return nil
}

func run(t *rapid.T, test string, sc scenario) {
	defer vlib.Canon()()
	flags := vlib.BaseFlags
	if sc.Inherit {
		flags |= slog.LattrsR
	}
	vlib.SetFlagsVia(sc.FlagsHow, flags, slog.LattrsR|slog.Lattrs|slog.Lcaller)
	log := vlib.NewEventLog()
	w := vlib.NewRec(log, 1, 0)

	// build the chain
	var lg slog.Logger
	name := ""
	var chainLoggers []slog.Logger
	var common slog.Attrs
	if len(sc.Common) > 0 {
		common = append(make(slog.Attrs, 0, 8), vlib.AttrsOf(sc.Common)...) // spare capacity
	}
	for i, own := range sc.Chain {
		args := vlib.BuildArgs(t, own)
		how := sc.HowSet[i]
		var opts []any
		nm := fmt.Sprintf("l%d", i)
		opts = append(opts, nm)
		if how == 2 && len(own) > 0 {
			opts = append(opts, slog.With(args...))
		}
		viaSkip := i > 0 && i < len(sc.ViaSkip) && sc.ViaSkip[i]
		if viaSkip && how == 2 {
			how = 0
		}
		switch {
		case i == 0:
			lg = slog.New(opts...)
		case viaSkip:
			lg = lg.WithSkip(1)
			nm = lg.Name()
		default:
			lg = lg.New(opts...)
		}
		if sc.AncestorCtxKeys && i < len(sc.Chain)-1 {
			lg.SetContextKeys("anck")
		}
		if common != nil && how != 2 {
			lg.SetAttrs1(common) // the very same slice value for every logger
		}
		if len(own) > 0 {
			switch how {
			case 0:
				lg.Set(args...)
			case 1:
				lg.SetAttrs(vlib.BuildAttrs(t, own)...)
			case 3:
				lg.SetAttrs1(slog.Attrs(vlib.BuildAttrs(t, own)))
			case 4:
				lg.SetAttrs1(slog.NewAttrs(args...)) // the package's own list constructor (the list may repeat keys)
			}
		}
		name = nm
		chainLoggers = append(chainLoggers, lg)
	}
	// the model's own attributes per logger: common first (unless the logger got its attributes as a creation option)
	chain := make([][]vlib.ExpAttr, len(sc.Chain))
	for i, own := range sc.Chain {
		if common != nil && sc.HowSet[i] != 2 {
			chain[i] = append(append([]vlib.ExpAttr{}, sc.Common...), own...)
		} else {
			chain[i] = own
		}
	}
	switch sc.Format {
	case "json":
		lg.SetJSONMode(true)
	case "logfmt":
		lg.SetColorMode(false)
	default:
		lg.SetColorMode(true)
	}
	lg.SetWriter(w)
	lg.SetErrorWriter(w)
	lg.SetLevel(slog.AlwaysLevel)

	// context keys and the context itself
	ctx := context.Background()
	var ctxAttrs []vlib.ExpAttr
	var keys []any
	for _, k := range sc.CtxKeys {
		var key any = k.Name
		if k.Stringer {
			key = &ctxKeyStr{k.Name}
		}
		keys = append(keys, key)
		if k.Present {
			ctx = context.WithValue(ctx, key, k.Val)
			ctxAttrs = append(ctxAttrs, vlib.ExpAttr{Key: k.Name, Val: vlib.Value{Kind: "int", V: k.Val}})
		}
	}
	if len(keys) > 0 {
		if sc.Disturb%2 == 1 {
			// the keys were something else first: ResetContextKeys forgets them (their value is in the context)
			lg.SetContextKeys("forgotten-context-key")
			if r, ok := lg.(interface{ ResetContextKeys(keys ...any) *slog.Entry }); ok {
				r.ResetContextKeys()
			} else {
				t.Fatalf("harness: the logger has no ResetContextKeys")
			}
			ctx = context.WithValue(ctx, "forgotten-context-key", "must not be printed") //nolint:staticcheck // string key on purpose
		}
		lg.SetContextKeys(keys...)
	}
	if sc.AncestorCtxKeys {
		ctx = context.WithValue(ctx, "anck", "a value for an ancestor's context key") //nolint:staticcheck // string key on purpose
	}
	if sc.CtxMode != "ctx" {
		ctxAttrs = nil // nil context or non-context verb: nothing can be found
	}

	emitAndCheck := func(round int, chain [][]vlib.ExpAttr, call []vlib.ExpAttr) {
		log.Reset()
		// reference merge: context, ancestors outermost first (iff the flag), own, call
		var sources []vlib.ExpAttr
		sources = append(sources, ctxAttrs...)
		contributing := 0
		if len(ctxAttrs) > 0 {
			contributing++
		}
		parentContrib := false
		for i, own := range chain {
			last := i == len(chain)-1
			if last || sc.Inherit {
				sources = append(sources, own...)
				if len(own) > 0 {
					contributing++
					if !last {
						parentContrib = true
					}
				}
			}
		}
		sources = append(sources, call...)
		if len(call) > 0 {
			contributing++
		}

		callArgs := vlib.BuildArgs(t, call)
		const msg = "assembly probe"
		vlib.Disturb(sc.Disturb)
		func() {
			defer func() {
				if p := recover(); p != nil {
					t.Fatalf("C07 call panicked: %v", p)
				}
			}()
			if sc.Pkg {
				slog.SetDefault(lg) // Canon puts the original default logger back
			}
			switch {
			case sc.CtxMode == "plain" && sc.Pkg:
				switch sc.Verb {
				case 0:
					slog.Info(msg, callArgs...)
				case 1:
					slog.Warn(msg, callArgs...)
				case 2:
					slog.Print(msg, callArgs...)
				default:
					slog.Println(append([]any{msg}, callArgs...)...)
				}
			case sc.CtxMode == "plain":
				switch sc.Verb {
				case 0:
					lg.Info(msg, callArgs...)
				case 1:
					lg.Warn(msg, callArgs...)
				case 2:
					lg.Print(msg, callArgs...)
				default:
					lg.Println(append([]any{msg}, callArgs...)...)
				}
			case sc.Pkg:
				c := ctx
				if sc.CtxMode == "nil" {
					c = nil
				}
				switch sc.Verb {
				case 0:
					slog.InfoContext(c, msg, callArgs...) //nolint:staticcheck // nil context on purpose
				case 1:
					slog.WarnContext(c, msg, callArgs...) //nolint:staticcheck
				case 2:
					slog.PrintContext(c, msg, callArgs...) //nolint:staticcheck
				default:
					slog.PrintlnContext(c, msg, callArgs...) //nolint:staticcheck
				}
			default:
				c := ctx
				if sc.CtxMode == "nil" {
					c = nil
				}
				switch sc.Verb {
				case 0:
					lg.InfoContext(c, msg, callArgs...) //nolint:staticcheck // nil context on purpose
				case 1:
					lg.LogAttrs(c, slog.WarnLevel, msg, callArgs...) //nolint:staticcheck
				case 2:
					lg.PrintContext(c, msg, callArgs...) //nolint:staticcheck
				default:
					lg.PrintlnContext(c, msg, callArgs...) //nolint:staticcheck
				}
			}
		}()
		writes := log.Writes()
		if len(writes) != 1 {
			t.Fatalf("C07 harness expectation: exactly one record, got %d", len(writes))
		}
		payload := writes[0].Payload
		lvlName := []string{"info", "warning", "always", "always"}[sc.Verb]
		exp := vlib.ExpRecord{LoggerName: name, LevelName: lvlName, Msg: msg, Attrs: sources, TimeLayout: "15:04:05.000000Z07:00"}
		desc := fmt.Sprintf("record #%d format=%s inherit=%v ctxmode=%s ctxkeys=%+v common=[%s] chain=[%s] call=[%s]", round, sc.Format, sc.Inherit, sc.CtxMode, sc.CtxKeys, vlib.Describe(sc.Common), describeChain(chain), vlib.Describe(call))
		sig := "C07/assembly"
		if !hasOwn(sc) && parentContrib {
			sig = "C07/inherit-without-own"
		}
		switch sc.Format {
		case "json":
			if p := vlib.CheckJSONRecord(payload, exp); p != nil {
				vlib.Discrep(t, sig, "C07 %s: %s\nexpected merge: [%s]", desc, p.Msg, vlib.Describe(vlib.Normalize(sources)))
			} else if o, err := vlib.DecodeJSONRecord(payload); err == nil {
				if err := ascending(o, map[string]bool{"time": true, "logger": true, "level": true, "msg": true, "caller": true}, ""); err != nil {
					vlib.Discrep(t, "C07/order", "C07 %s: %v; payload %s", desc, err, vlib.Short(string(payload)))
				}
			}
		case "logfmt":
			exp.QuotingNotJudged = true // quoting is C05's clause
			if p := vlib.CheckLogfmtRecord(payload, exp, false); p != nil {
				vlib.Discrep(t, sig, "C07 %s: %s\nexpected merge: [%s]", desc, p.Msg, vlib.Describe(vlib.Normalize(sources)))
			}
		default:
			r := vlib.SimulateSGR(payload)
			line := strings.SplitN(r.Text, "\n", 2)[0]
			i := strings.Index(line, msg)
			if i < 0 {
				t.Fatalf("C07 %s: message not found in colored record %q", desc, r.Text)
			}
			rest := strings.TrimLeft(line[i+len(msg):], " ")
			pairs, err := vlib.ParseLogfmtRecord([]byte(rest + "\n"))
			if err != nil {
				vlib.Discrep(t, sig, "C07 %s: attribute region %q is not key=value pairs: %v\nexpected merge: [%s]", desc, rest, err, vlib.Describe(vlib.Normalize(sources)))
			} else if err := vlib.MatchLogfmtAttrsOrdered(pairs, vlib.Normalize(sources), false); err != nil {
				vlib.Discrep(t, sig, "C07 %s: %v; attribute region %q\nexpected merge: [%s]", desc, err, rest, vlib.Describe(vlib.Normalize(sources)))
			}
		}

		// classification
		var labels []string
		labels = append(labels, "format="+sc.Format, fmt.Sprintf("inherit=%v", sc.Inherit), fmt.Sprintf("depth=%d", len(sc.Chain)), "ctx="+sc.CtxMode)
		nt := map[string]bool{}
		if contributing >= 2 && hasDup(sources) {
			nt["same-key-from-2-sources"] = true
		}
		if len(sources) >= 13 && hasDup(sources) {
			nt["dup-among>=13"] = true
		}
		if parentContrib && !hasOwn(sc) {
			nt["parent-contributes-child-has-none"] = true
		}
		if len(ctxAttrs) > 0 {
			nt["ctx-values"] = true
		}
		for l := range nt {
			labels = append(labels, l)
		}
		key := ""
		if nt["same-key-from-2-sources"] || nt["dup-among>=13"] || nt["parent-contributes-child-has-none"] {
			key = fmt.Sprintf("%s|%v|%s|%s|%d|%d", sc.Format, sc.Inherit, sc.CtxMode, vlib.JoinSorted(nt), len(sc.Chain), len(sources))
		}
		vlib.Case(test, key, labels...)
		if key != "" && vlib.WantSample(test+"/"+sc.Format) {
			vlib.Sample(test+"/"+sc.Format, map[string]any{"scenario": desc, "expected": vlib.Describe(vlib.Normalize(sources)), "payload": vlib.Short(string(payload))})
		}
	} // emitAndCheck

	emitAndCheck(1, chain, sc.Call)
	if sc.Mutate >= -1 {
		// a second record of the same logger: earlier records and attribute changes of any ancestor must
		// show exactly as the merge rule says (no cached ancestors, no values written into logger attributes)
		if sc.Mutate >= 0 && len(sc.MoreAttrs) > 0 {
			chainLoggers[sc.Mutate].Set(vlib.BuildArgs(t, sc.MoreAttrs)...)
			chain[sc.Mutate] = append(append([]vlib.ExpAttr{}, chain[sc.Mutate]...), sc.MoreAttrs...)
		}
		emitAndCheck(2, chain, sc.Call2)
	}
}

func hasOwn(sc scenario) bool { return len(sc.Chain[len(sc.Chain)-1]) > 0 || len(sc.Common) > 0 }

func describeChain(c [][]vlib.ExpAttr) string {
	var parts []string
	for _, own := range c {
		parts = append(parts, "{"+vlib.Describe(own)+"}")
	}
	return strings.Join(parts, " > ")
}

func TestAssembly(t *testing.T) {
	rapid.Check(t, func(t *rapid.T) { run(t, "TestAssembly", genScenario(t)) })
}
