// C14 — caller attribution points at the user's call site for every entry point.
package c14

import (
	"context"
	"fmt"
	errorsv3 "gopkg.in/hedzr/errors.v3"
	"io"
	"log"
	logslog "log/slog"
	"reflect"
	"runtime"
	"strconv"
	"strings"
	"testing"
	"time"

	"github.com/hedzr/logg/slog"
	"github.com/hedzr/logg/slog/verifharness/vlib"
	"pgregory.net/rapid"
)

func TestMain(m *testing.M) { vlib.Main(m) }

type frame struct {
	File string
	Line int
	Func string
}

// here describes the statement on the line FOLLOWING the call to here() in the caller.
func here() frame {
	var pcs [1]uintptr
	runtime.Callers(2, pcs[:])
	fr, _ := runtime.CallersFrames(pcs[:]).Next()
	return frame{fr.File, fr.Line + 1, fr.Function}
}

type cx struct {
	lg     slog.Logger
	sl     *logslog.Logger
	slw    *logslog.Logger // derived: sl.With(...).WithGroup(...)
	std    *log.Logger
	ctx    context.Context
	leaf   func(c *cx)
	frames [8]frame
}

// wrapper chains: level i records the line of its call one level down

//go:noinline
func wrapNoInline(c *cx, i int) {
	if i == 1 {
		c.frames[1] = here()
		c.leaf(c)
		return
	}
	c.frames[i] = here()
	wrapNoInline(c, i-1)
}

func wrapI1(c *cx) {
	c.frames[1] = here()
	c.leaf(c)
}

func wrapI2(c *cx) {
	c.frames[2] = here()
	wrapI1(c)
}

func wrapI3(c *cx) {
	c.frames[3] = here()
	wrapI2(c)
}

func wrapI4(c *cx) {
	c.frames[4] = here()
	wrapI3(c)
}

type scenario struct {
	Site      int
	Format    string
	Kind      string // root | child | default
	Skip      int
	SkipHow   string // WithSkip | SetSkip
	Depth     int    // wrapper chain depth (>= Skip)
	Inlinable bool
	Privacy   bool
	FlagsHow  int // which public way sets the flags (vlib.SetFlagsVia)
	// LateSkip (SetSkip only): the skip count is set AFTER the log/slog handler and the std log bridge
	// were built on the logger - it is a property of the logger, consulted per record
	LateSkip bool
	Repeat   int // the issuing statement runs this many times in a row (0/1: once)
	PrevSkip int // -1: none; otherwise SetSkip(PrevSkip) is called before the final skip is set
	// UsedFirst (with LateSkip): records are issued through the logger, the handler and the bridge before the late SetSkip
	UsedFirst bool
}

func (s scenario) String() string {
	return fmt.Sprintf("%s format=%s logger=%s skip=%d(%s, previous SetSkip %d, set after adapters were built=%v and used=%v) wrappers=%d inlinable=%v privacy=%v", sites[s.Site].Name, s.Format, s.Kind, s.Skip, s.SkipHow, s.PrevSkip, s.LateSkip, s.UsedFirst, s.Depth, s.Inlinable, s.Privacy)
}

func run(t vlib.TB, test string, sc scenario) {
	defer vlib.Canon()()
	st := sites[sc.Site]
	flags := vlib.BaseFlags | slog.Lcaller | slog.LnoInterrupt
	if !sc.Privacy {
		flags &^= slog.Lprivacypath | slog.Lprivacypathregexp
	}
	log1 := vlib.NewEventLog()
	w := vlib.NewRec(log1, 1, 0)

	var lg slog.Logger
	switch sc.Kind {
	case "child":
		lg = slog.New("root").New("kid")
	default:
		lg = slog.New("root")
	}
	if sc.PrevSkip >= 0 {
		lg.SetSkip(sc.PrevSkip) // an earlier skip count must not survive the next SetSkip / leak into a WithSkip child
	}
	late := sc.LateSkip && sc.SkipHow == "SetSkip"
	if (sc.Skip > 0 || sc.SkipHow == "SetSkip" || sc.PrevSkip >= 0) && !late {
		if sc.SkipHow == "WithSkip" {
			parent := lg
			lg = lg.WithSkip(sc.Skip)
			// a sibling with another skip count, created afterwards, must not change this one
			_ = parent.WithSkip(sc.Skip + 1 + sc.Depth%2)
		} else {
			lg.SetSkip(sc.Skip)
		}
	}
	lg.SetWriter(w)
	lg.SetErrorWriter(w)
	lg.SetLevel(slog.AlwaysLevel)
	c := &cx{lg: lg, ctx: context.Background(), leaf: st.Leaf}

	switch st.Kind {
	case "adapter", "adapterpkg":
		h := slog.NewSlogHandler(lg, &slog.HandlerOptions{NoColor: sc.Format != "color", JSON: sc.Format == "json"})
		c.sl = logslog.New(h)
		c.slw = c.sl.With("derived", true).WithGroup("g1")
		if st.Kind == "adapterpkg" {
			old := logslog.Default()
			logslog.SetDefault(c.sl)
			defer logslog.SetDefault(old)
		}
	default:
		switch sc.Format {
		case "json":
			lg.SetJSONMode(true)
		case "logfmt":
			lg.SetColorMode(false)
		default:
			lg.SetColorMode(true)
		}
	}
	if st.Kind == "bridge" {
		c.std = slog.NewLogLogger(lg, slog.AlwaysLevel)
	}
	if st.Kind == "pkg" || sc.Kind == "default" {
		slog.SetDefault(lg)
		if sc.Kind == "default" {
			c.lg = slog.Default()
		}
	}
	if late {
		if sc.UsedFirst {
			// records have gone through the logger, the handler (and one derived from it) and the bridge under the earlier
			// skip count: whatever they resolved then must not outlive the SetSkip that follows
			lg.Info("a record before the skip count changes")
			if c.sl != nil {
				c.sl.Info("a record through the handler before the skip count changes")
				c.slw.Info("a record through a derived handler before the skip count changes")
			}
			if c.std != nil {
				c.std.Print("a record through the bridge before the skip count changes")
			}
		}
		lg.SetSkip(sc.Skip)
	}
	vlib.SetFlagsVia(sc.FlagsHow, flags, slog.Lcaller|slog.Llineno|slog.Lcallerpackagename|slog.Lprivacypath) // after NewSlogHandler, which edits the caller flag

	// the same statement issues the record sc.Repeat times in a row (per-site caches); every record is checked
	var file, fn string
	line := -1
	reps := sc.Repeat
	if reps < 1 {
		reps = 1
	}
	for rep := 0; rep < reps; rep++ {
		log1.Reset()
		func() {
			defer func() {
				if p := recover(); p != nil {
					t.Fatalf("C14 %s: call panicked: %v", sc, p)
				}
			}()
			switch {
			case sc.Depth == 0:
				c.leaf(c)
			case sc.Inlinable:
				[]func(*cx){wrapI1, wrapI2, wrapI3, wrapI4}[sc.Depth-1](c)
			default:
				wrapNoInline(c, sc.Depth)
			}
		}()
		writes := log1.Writes()
		if len(writes) != 1 {
			t.Fatalf("C14 %s: expected exactly one record, got %d: %v", sc, len(writes), log1.Snapshot())
		}
		p := writes[0].Payload
		file, fn, line = "", "", -1
		switch sc.Format {
		case "json":
			o, err := vlib.DecodeJSONRecord(p)
			if err != nil {
				t.Fatalf("C14 %s: %v: %q", sc, err, p)
			}
			if co, ok := o.Vals["caller"].(*vlib.JObj); ok {
				file, _ = co.Vals["file"].(string)
				fn, _ = co.Vals["function"].(string)
				if n, ok := co.Vals["line"].(interface{ Int64() (int64, error) }); ok {
					v, _ := n.Int64()
					line = int(v)
				}
			}
		case "logfmt":
			line1 := p
			if k := strings.IndexByte(string(p), '\n'); k >= 0 && !vlib.ProductionMode() {
				line1 = p[:k+1] // under go test an error value is followed by its multi-line dump
			}
			pairs, err := vlib.ParseLogfmtRecord(line1)
			if err != nil {
				t.Fatalf("C14 %s: %v: %q", sc, err, p)
			}
			for _, pr := range pairs {
				switch pr.Key {
				case "caller.file":
					file = pr.Str
				case "caller.line":
					line, _ = strconv.Atoi(pr.Raw)
				case "caller.function":
					fn = pr.Str
				}
			}
		default:
			txt := strings.SplitN(vlib.SimulateSGR(p).Text, "\n", 2)[0]
			f := strings.Fields(txt)
			if len(f) >= 2 {
				fn = f[len(f)-1]
				tail := f[len(f)-2]
				if i := strings.LastIndexByte(tail, ':'); i > 0 {
					file = tail[:i]
					line, _ = strconv.Atoi(tail[i+1:])
				}
			}
		}
		want := c.frames[sc.Skip]
		// the path policy may give different (equally allowed) results from call to call when the file lies
		// under several mappings (Go map order; C18/C09 own that): accept any of them
		wantFiles := map[string]bool{}
		for i := 0; i < 16; i++ {
			wantFiles[slog.Safety(want.File)] = true
		}
		wantFile := slog.Safety(want.File)
		if wantFiles[file] {
			wantFile = file
		}
		wantFn := want.Func
		if sc.Format == "color" {
			if i := strings.LastIndex(wantFn, "/"); i >= 0 {
				wantFn = wantFn[i+1:]
			}
		}
		if file != wantFile || line != want.Line || fn != wantFn {
			vlib.Discrep(t, "C14/attribution:"+st.Kind, "C14 %s: record says %s:%d %s, the issuing statement %d frame(s) up is %s:%d %s (all frames: %v); payload %q",
				sc, file, line, fn, sc.Skip, wantFile, want.Line, wantFn, c.frames[:sc.Depth+1], p)
		}
	} // rep
	key := ""
	if sc.Skip >= 1 || st.Kind != "native" {
		key = sc.String()
	}
	vlib.Case(test, key, "kind="+st.Kind, "format="+sc.Format, "logger="+sc.Kind, fmt.Sprintf("skip=%d", sc.Skip), fmt.Sprintf("inlinable=%v", sc.Inlinable))
	if key != "" && vlib.WantSample(test+"/"+st.Kind) {
		vlib.Sample(test+"/"+st.Kind, map[string]any{"scenario": sc.String(), "reported": fmt.Sprintf("%s:%d %s", file, line, fn)})
	}
}

// an error value that carries its own stack trace (created here, not at the logging statements)
var stackErr = errorsv3.New("error with a stack of its own")

var formats = []string{"json", "logfmt", "color"}
var kinds = []string{"root", "child", "default"}

func TestSampled(t *testing.T) {
	rapid.Check(t, func(t *rapid.T) {
		var sc scenario
		sc.Site = rapid.IntRange(0, len(sites)-1).Draw(t, "site")
		sc.Format = rapid.SampledFrom(formats).Draw(t, "format")
		sc.Kind = rapid.SampledFrom(kinds).Draw(t, "logger")
		sc.Skip = rapid.IntRange(0, 4).Draw(t, "skip")
		sc.SkipHow = rapid.SampledFrom([]string{"WithSkip", "SetSkip"}).Draw(t, "skipHow")
		sc.Depth = rapid.IntRange(sc.Skip, 4).Draw(t, "depth")
		sc.Inlinable = rapid.Bool().Draw(t, "inlinable")
		sc.Privacy = rapid.IntRange(0, 3).Draw(t, "privacy") != 0
		sc.PrevSkip = rapid.SampledFrom([]int{-1, -1, 0, 1, 3}).Draw(t, "previousSkip")
		sc.FlagsHow = rapid.SampledFrom([]int{0, 0, 1, 2, 3, 4}).Draw(t, "flagsHow")
		sc.LateSkip = rapid.Bool().Draw(t, "skipSetAfterAdaptersBuilt")
		sc.UsedFirst = rapid.Bool().Draw(t, "adaptersUsedBeforeTheSkipChanges")
		sc.Repeat = rapid.SampledFrom([]int{1, 1, 2, 3}).Draw(t, "recordsFromTheSameStatement")
		run(t, "TestSampled", sc)
	})
}

// TestMatrix enumerates entry points x formats x logger kinds x skip 0..4 (depth = skip and depth = 4)
// x wrapper variant x skip mechanism. Runs in both tiers (a few ten thousand cheap cells).
func TestMatrix(t *testing.T) {
	n := 0
	for si := range sites {
		for _, f := range formats {
			for _, k := range kinds {
				for skip := 0; skip <= 4; skip++ {
					for _, depth := range []int{skip, 4} {
						for _, inl := range []bool{false, true} {
							for _, how := range []string{"WithSkip", "SetSkip"} {
								if skip == 0 && how == "SetSkip" && depth != skip {
									continue
								}
								run(t, "TestMatrix", scenario{Site: si, Format: f, Kind: k, Skip: skip, SkipHow: how, Depth: depth, Inlinable: inl, Privacy: true, PrevSkip: -1})
								n++
								if how == "SetSkip" && !inl && depth == skip && (sites[si].Kind == "bridge" || sites[si].Kind == "adapter" || sites[si].Kind == "adapterpkg") {
									// the same cell with the skip count set after the handler / bridge was built
									run(t, "TestMatrix", scenario{Site: si, Format: f, Kind: k, Skip: skip, SkipHow: how, Depth: depth, Inlinable: inl, Privacy: true, PrevSkip: -1, LateSkip: true})
									run(t, "TestMatrix", scenario{Site: si, Format: f, Kind: k, Skip: skip, SkipHow: how, Depth: depth, Inlinable: inl, Privacy: true, PrevSkip: -1, LateSkip: true, UsedFirst: true})
									n++
								}
								if how == "SetSkip" && !inl && depth == 4 {
									// the same cell after an earlier SetSkip(2) on the same logger
									run(t, "TestMatrix", scenario{Site: si, Format: f, Kind: k, Skip: skip, SkipHow: how, Depth: depth, Inlinable: inl, Privacy: true, PrevSkip: 2})
									n++
								}
							}
						}
					}
				}
			}
		}
	}
	vlib.Exhaustive(fmt.Sprintf("%d entry points x 3 formats x {root,child,default} x skip 0..4 x wrapper depth {skip,4} x {noinline, inlinable} x {WithSkip,SetSkip} = %d cells (this build's inlining mode)", len(sites), n))
}

// TestManyCallSites: attribution must not depend on how many different call sites the process has seen.
// Every site of the table logs once, then 6000 records with 6000 distinct (valid) program counters are
// handed to WriteThru, then every site logs again - and must still be attributed to its own statement.
func TestManyCallSites(t *testing.T) {
	check := func() {
		for si := range sites {
			for _, f := range formats {
				run(t, "TestManyCallSites", scenario{Site: si, Format: f, Kind: "root", Skip: 0, SkipHow: "WithSkip", Depth: 0, Privacy: true, PrevSkip: -1, Repeat: 2})
			}
		}
	}
	check()
	func() {
		defer vlib.Canon()()
		slog.SetFlags(vlib.BaseFlags | slog.Lcaller)
		lg := slog.New("manysites").SetWriter(io.Discard).SetErrorWriter(io.Discard).SetLevel(slog.AlwaysLevel).SetJSONMode(true)
		base := reflect.ValueOf(wrapNoInline).Pointer()
		for i := 0; i < 6000; i++ {
			func() {
				defer func() {
					if p := recover(); p != nil {
						t.Fatalf("C14 record #%d of a run of records from distinct call sites (pc %#x) panicked: %v", i, base+uintptr(i), p)
					}
				}()
				lg.WriteThru(context.Background(), slog.InfoLevel, time.Unix(1700000000, 0), base+uintptr(i), "another call site", nil)
			}()
		}
	}()
	check()
	vlib.Exhaustive(fmt.Sprintf("%d sites x 3 formats, each twice, before and after 6000 records from distinct program counters", len(sites)))
}
