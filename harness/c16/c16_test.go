// C16 — timestamps show the record's instant in the configured zone and layout.
package c16

import (
	"context"
	"fmt"
	"io"
	logslog "log/slog"
	"strings"
	"testing"
	"time"
	_ "time/tzdata"

	"github.com/hedzr/logg/slog"
	"github.com/hedzr/logg/slog/verifharness/vlib"
	"pgregory.net/rapid"
)

func TestMain(m *testing.M) { vlib.Main(m) }

// the documented flag -> layout table (slog/cvt.go), copied; missing combinations use the time-with-microseconds layout
var flagLayouts = map[slog.Flags]string{
	slog.Ldate:                                   "2006-01-02",
	slog.Ltime:                                   "15:04:05Z07:00",
	slog.Ltime | slog.Lmicroseconds:              "15:04:05.000000Z07:00",
	slog.Ldate | slog.Ltime:                      "2006-01-0215:04:05Z07:00",
	slog.Ldate | slog.Lmicroseconds:              "2006-01-02T15:04:05.000000Z07:00",
	slog.Ldate | slog.Ltime | slog.Lmicroseconds: "2006-01-02T15:04:05.000000Z07:00",
}

const fallbackLayout = "15:04:05.000000Z07:00"

var customLayouts = []string{time.RFC3339, time.RFC3339Nano, time.RFC1123, time.RFC1123Z, time.RFC822Z, time.RFC850, time.ANSIC, time.UnixDate,
	time.Kitchen, time.StampNano, time.DateOnly, time.TimeOnly, "2006-01-02 15:04:05.000 -0700", "02/01/06 03:04:05PM Z07:00:00",
	// literal text that is not ASCII
	"2006\u5e7401\u670802\u65e5 15\u65f604\u520605\u79d2 -0700", "02.01.2006 \u00b7 15:04:05.000000 Z07:00"}

var zoneNames = []string{"America/New_York", "Europe/Berlin", "Asia/Kolkata", "Australia/Lord_Howe", "Pacific/Apia", "Asia/Kathmandu", "America/St_Johns", "Africa/Monrovia"}

func genZone() *rapid.Generator[*time.Location] {
	return rapid.OneOf(
		rapid.Just(time.UTC),
		rapid.Custom(func(t *rapid.T) *time.Location {
			mins := rapid.IntRange(-14*60, 14*60).Draw(t, "offsetMinutes")
			return time.FixedZone(rapid.SampledFrom([]string{"", "XST"}).Draw(t, "zname"), mins*60)
		}),
		rapid.Custom(func(t *rapid.T) *time.Location {
			loc, err := time.LoadLocation(rapid.SampledFrom(zoneNames).Draw(t, "zone"))
			if err != nil {
				return time.FixedZone("fallback", 3600)
			}
			return loc
		}),
	)
}

// instants an implementation might special-case
var specialInstants = []time.Time{
	{}, // the zero time.Time
	time.Time{}.In(time.FixedZone("", 8*3600)),
	time.Time{}.Add(time.Nanosecond),
	time.Unix(0, 0), time.Unix(0, 0).UTC(), time.Unix(-1, 999999999).UTC(),
	time.Date(9999, 12, 31, 23, 59, 59, 999999999, time.UTC),
	time.Date(2000, 1, 1, 0, 0, 0, 0, time.FixedZone("", -3600)),
}

func genInstant() *rapid.Generator[time.Time] {
	return rapid.OneOf(rapid.SampledFrom(specialInstants), genInstantAny(), genInstantAny(), genInstantAny(), genInstantAny(), genInstantAny())
}

func genInstantAny() *rapid.Generator[time.Time] {
	return rapid.Custom(func(t *rapid.T) time.Time {
		loc := genZone().Draw(t, "loc")
		year := rapid.OneOf(rapid.IntRange(1970, 2100), rapid.IntRange(0, 9999), rapid.IntRange(-100, 12000)).Draw(t, "year")
		ns := rapid.OneOf(rapid.IntRange(0, 999999999), rapid.SampledFrom([]int{0, 1, 499, 500, 999, 1000, 999999, 999999500, 999999999, 123456789})).Draw(t, "ns")
		// include DST edges: dates around late March / late October / early November, hours 0-3
		month := rapid.IntRange(1, 12).Draw(t, "month")
		day := rapid.IntRange(1, 31).Draw(t, "day")
		hour := rapid.IntRange(0, 23).Draw(t, "hour")
		return time.Date(year, time.Month(month), day, hour, rapid.IntRange(0, 59).Draw(t, "min"), rapid.IntRange(0, 59).Draw(t, "sec"), ns, loc)
	})
}

type scenario struct {
	Format     string
	DateFlags  slog.Flags // subset of Ldate|Ltime|Lmicroseconds
	LocalTime  bool
	UTCCalls   [][]bool // sequence of SetUTCMode argument lists; nil slice = never called
	UTCViaOpt  bool
	LayoutSet  bool
	LayoutArgs []string
	// EmptyFirst: SetTimeFormat() (1) or SetTimeFormat("") (2) is called before the call that gives the layout
	EmptyFirst int
	// Neighbour: a record this far from the instant is printed first (0: none)
	Neighbour time.Duration
	Via        string // thru | adapter
	TS         time.Time
	// FlagHow: how the date/time/localtime flags get their value
	//   set        SetFlags(f)
	//   addremove  ResetFlags(); AddFlags/RemoveFlags one by one
	//   scope      inside SaveFlagsAndMod(add, remove...) (another flag set is active outside)
	//   restored   after the restore function of a SaveFlagsAndMod scope in which other flags were
	//              active and a record was emitted
	FlagHow    string
	OtherFlags slog.Flags // the flags active in the other phase (date/time/us/localtime bits)
	UsedBefore bool       // the logger printed records (in all formats) before its zone mode and layout were set in place
}

func layoutPrecision(layout string) time.Duration {
	switch {
	case strings.Contains(layout, ".000000000") || strings.Contains(layout, ".999999999"):
		return time.Nanosecond
	case strings.Contains(layout, ".000000"):
		return time.Microsecond
	case strings.Contains(layout, ".000"):
		return time.Millisecond
	case strings.Contains(layout, "05"):
		return time.Second
	case strings.Contains(layout, "04"):
		return time.Minute
	}
	return 0
}

func run(t vlib.TB, sc scenario) {
	defer vlib.Canon()()
	log := vlib.NewEventLog()
	w := vlib.NewRec(log, 1, 0)

	var opts []any
	opts = append(opts, "ts")
	mode := 0 // 0 unset, 1 local, 2 utc
	applyUTC := func(args []bool) {
		mode = 2
		for _, b := range args {
			if b {
				mode = 2
			} else {
				mode = 1
			}
		}
	}
	if sc.UTCViaOpt {
		for _, a := range sc.UTCCalls {
			opts = append(opts, slog.WithUTCMode(a...))
			applyUTC(a)
		}
	}
	lg := slog.New(opts...)
	if sc.UsedBefore {
		// the logger has printed records before its zone mode and layout are set in place (a long-lived logger that is
		// reconfigured): whatever was resolved for it then is out of date afterwards
		lg.SetWriter(io.Discard).SetErrorWriter(io.Discard).SetLevel(slog.AlwaysLevel)
		for _, f := range []string{"color", "logfmt", "json"} {
			switch f {
			case "json":
				lg.SetJSONMode(true)
			case "logfmt":
				lg.SetColorMode(false)
			default:
				lg.SetColorMode(true)
			}
			lg.(slog.LogSlogAware).WriteThru(context.Background(), slog.InfoLevel, sc.TS, 0, "before the time style is set", nil)
		}
		lg.SetColorMode(true) // the format a new logger starts in
	}
	if !sc.UTCViaOpt {
		for _, a := range sc.UTCCalls {
			lg.SetUTCMode(a...)
			applyUTC(a)
		}
	}
	layout := ""
	if sc.LayoutSet {
		switch sc.EmptyFirst {
		case 1:
			lg.SetTimeFormat() // which layout this selects is open - the zone rules are not, and the next call gives a layout
		case 2:
			lg.SetTimeFormat("")
		}
		lg.SetTimeFormat(sc.LayoutArgs...)
		layout = time.RFC3339Nano // documented default of SetTimeFormat()
		for _, l := range sc.LayoutArgs {
			if l != "" {
				layout = l
			}
		}
	}
	lg.SetWriter(w)
	lg.SetErrorWriter(w)
	lg.SetLevel(slog.AlwaysLevel)

	var h logslog.Handler
	switch sc.Via {
	case "adapter":
		h = slog.NewSlogHandler(lg, &slog.HandlerOptions{NoColor: sc.Format != "color", JSON: sc.Format == "json", NoSource: true})
	default:
		switch sc.Format {
		case "json":
			lg.SetJSONMode(true)
		case "logfmt":
			lg.SetColorMode(false)
		default:
			lg.SetColorMode(true)
		}
	}
	// flags last: NewSlogHandler edits the caller flag
	const tbits = slog.Ldate | slog.Ltime | slog.Lmicroseconds | slog.LlocalTime
	flags := (vlib.BaseFlags &^ tbits) | sc.DateFlags
	if sc.LocalTime {
		flags |= slog.LlocalTime
	}
	other := (vlib.BaseFlags &^ tbits) | (sc.OtherFlags & tbits)
	emitOther := func() {
		// a record under the other flag set (primes whatever the implementation may cache)
		lg.(slog.LogSlogAware).WriteThru(context.Background(), slog.InfoLevel, sc.TS, 0, "other phase", nil)
		log.Reset()
	}
	var restoreScope func()
	switch sc.FlagHow {
	case "addremove":
		slog.ResetFlags()
		for _, f := range []slog.Flags{slog.Ldate, slog.Ltime, slog.Lmicroseconds, slog.LlocalTime, slog.Lcaller, slog.Llineno, slog.LattrsR} {
			if flags&f != 0 {
				slog.AddFlags(f)
			} else {
				slog.RemoveFlags(f)
			}
		}
		slog.AddFlags(slog.LnoInterrupt)
	case "scope":
		slog.SetFlags(other)
		emitOther()
		restoreScope = slog.SaveFlagsAndMod(flags&^other, other&^flags)
	case "restored":
		slog.SetFlags(flags)
		restore := slog.SaveFlagsAndMod(other&^flags, flags&^other)
		emitOther()
		restore()
	default:
		slog.SetFlags(flags)
	}
	if restoreScope != nil {
		defer restoreScope()
	}
	if got := slog.GetFlags() & tbits; got != flags&tbits {
		t.Fatalf("harness: flags are %#x, wanted %#x (how=%s)", int64(got), int64(flags&tbits), sc.FlagHow)
	}
	if layout == "" {
		var ok bool
		if layout, ok = flagLayouts[sc.DateFlags]; !ok {
			layout = fallbackLayout
		}
	}
	useUTC := mode == 2 || (mode == 0 && !sc.LocalTime)
	want := sc.TS
	if useUTC {
		want = sc.TS.UTC()
	}
	wantText := want.Format(layout)

	if sc.Neighbour != 0 {
		// a record of a neighbouring instant (a nanosecond, a microsecond, a millisecond, almost a second away) goes first,
		// through the same logger under the same settings: whatever was rendered for it must not show in the next one
		nb := sc.TS.Add(sc.Neighbour)
		if h != nil {
			_ = h.Handle(context.Background(), logslog.NewRecord(nb, logslog.LevelInfo, "neighbouring instant", 0))
		} else {
			lg.(slog.LogSlogAware).WriteThru(context.Background(), slog.InfoLevel, nb, 0, "neighbouring instant", nil)
		}
		log.Reset()
	}
	if h != nil {
		rec := logslog.NewRecord(sc.TS, logslog.LevelInfo, "timestamp probe", 0)
		if err := h.Handle(context.Background(), rec); err != nil {
			t.Fatalf("C16 adapter Handle failed: %v", err)
		}
	} else {
		lg.(slog.LogSlogAware).WriteThru(context.Background(), slog.InfoLevel, sc.TS, 0, "timestamp probe", nil)
	}
	writes := log.Writes()
	if len(writes) != 1 {
		t.Fatalf("C16 harness: expected one record, got %d", len(writes))
	}
	p := writes[0].Payload
	var got string
	switch sc.Format {
	case "json":
		o, err := vlib.DecodeJSONRecord(p)
		if err != nil {
			t.Fatalf("C16: record is not JSON: %v: %q", err, p)
		}
		got, _ = o.Vals["time"].(string)
	case "logfmt":
		pairs, err := vlib.ParseLogfmtRecord(p)
		if err != nil || len(pairs) == 0 || pairs[0].Key != "time" {
			t.Fatalf("C16: record is not logfmt starting with time=: %v: %q", err, p)
		}
		got = pairs[0].Str
	default:
		txt := vlib.SimulateSGR(p).Text
		i := strings.Index(txt, "| ")
		if i < 0 {
			t.Fatalf("C16: no timestamp separator in colored record %q", txt)
		}
		got = txt[:i]
	}
	desc := fmt.Sprintf("format=%s via=%s flags{date/time/us=%#x localTime=%v} utcCalls=%v(viaOpt=%v => mode %d) layoutSet=%v%q instant=%s (zone %s) neighbour-printed-first=%v SetTimeFormat-without-layout-first=%d",
		sc.Format, sc.Via, int64(sc.DateFlags), sc.LocalTime, sc.UTCCalls, sc.UTCViaOpt, mode, sc.LayoutSet, sc.LayoutArgs, sc.TS.Format(time.RFC3339Nano), sc.TS.Location(), sc.Neighbour, sc.EmptyFirst)
	if got != wantText {
		vlib.Discrep(t, "C16/text", "C16 %s: timestamp is %q, want %q (layout %q, utc=%v)", desc, got, wantText, layout, useUTC)
	}
	// parse-back
	parsed, err := time.Parse(layout, got)
	if strings.Contains(layout, "MST") {
		// zone abbreviations do not round-trip through time.Parse (a property of package time, not of the logger)
	} else if err != nil {
		if y := want.Year(); y >= 0 && y <= 9999 {
			vlib.Discrep(t, "C16/parse", "C16 %s: %q does not parse with its own layout %q: %v", desc, got, layout, err)
		}
	} else {
		if back := parsed.Format(layout); back != got && !strings.Contains(layout, "MST") {
			vlib.Discrep(t, "C16/parse", "C16 %s: %q parses but re-formats as %q (layout %q)", desc, got, back, layout)
		}
		full := strings.Contains(layout, "2006") && strings.Contains(layout, "15") && (strings.Contains(layout, "Z07") || strings.Contains(layout, "-07"))
		_, offSec := want.Zone() // historical local-mean-time offsets have seconds, which the "Z07:00" verbs drop
		if y := want.Year(); full && y >= 0 && y <= 9999 && offSec%60 == 0 {
			prec := layoutPrecision(layout)
			if prec > 0 && !parsed.Equal(sc.TS.Truncate(prec)) && !strings.Contains(layout, "Z07:00:00") {
				// Truncate works on absolute time; sub-second truncation is zone independent
				vlib.Discrep(t, "C16/parse", "C16 %s: %q parses to %s, want the instant truncated to %v = %s", desc, got, parsed.Format(time.RFC3339Nano), prec, sc.TS.Truncate(prec).Format(time.RFC3339Nano))
			}
		}
	}

	nonUTC := sc.TS.Location() != time.UTC
	key := ""
	if nonUTC || sc.LayoutSet || sc.TS.Nanosecond()%1000 != 0 {
		key = fmt.Sprintf("%s|%s|%#x|%v|%d|%v|%s|%v|%d", sc.Format, sc.Via, int64(sc.DateFlags), sc.LocalTime, mode, sc.LayoutSet, layout, nonUTC, sc.TS.Year()/1000)
	}
	labels := []string{"format=" + sc.Format, "via=" + sc.Via, "flags-via=" + sc.FlagHow, fmt.Sprintf("utcmode=%d", mode), fmt.Sprintf("localTimeFlag=%v", sc.LocalTime), fmt.Sprintf("useUTC=%v", useUTC)}
	if sc.LayoutSet {
		labels = append(labels, "custom-layout")
	}
	if nonUTC {
		labels = append(labels, "non-utc-zone")
	}
	if sc.Neighbour != 0 {
		labels = append(labels, "neighbouring-instant-printed-first")
	}
	vlib.Case("TestTimestamps", key, labels...)
	if key != "" && vlib.WantSample("TestTimestamps/"+sc.Format) {
		vlib.Sample("TestTimestamps/"+sc.Format, map[string]any{"scenario": desc, "printed": got})
	}
}

func TestTimestamps(t *testing.T) {
	rapid.Check(t, func(t *rapid.T) {
		var sc scenario
		sc.Format = rapid.SampledFrom([]string{"json", "logfmt", "color"}).Draw(t, "format")
		for _, f := range []slog.Flags{slog.Ldate, slog.Ltime, slog.Lmicroseconds} {
			if rapid.Bool().Draw(t, "dateflag") {
				sc.DateFlags |= f
			}
		}
		sc.LocalTime = rapid.Bool().Draw(t, "localTime")
		n := rapid.SampledFrom([]int{0, 0, 1, 1, 2}).Draw(t, "utcCalls")
		for i := 0; i < n; i++ {
			sc.UTCCalls = append(sc.UTCCalls, rapid.SliceOfN(rapid.Bool(), 0, 3).Draw(t, "utcArgs"))
		}
		sc.UTCViaOpt = rapid.Bool().Draw(t, "utcViaOption")
		if rapid.IntRange(0, 2).Draw(t, "layoutSet") == 0 {
			sc.LayoutSet = true
			k := rapid.IntRange(0, 2).Draw(t, "layoutArgs")
			for i := 0; i < k; i++ {
				sc.LayoutArgs = append(sc.LayoutArgs, rapid.SampledFrom(append([]string{""}, customLayouts...)).Draw(t, "layout"))
			}
			// which layout a call without any (non-empty) layout selects is not stated: the property speaks of "the logger's
			// time layout if one was set" and quantifies over a list of custom layouts - at least one is always given
			given := false
			for _, l := range sc.LayoutArgs {
				given = given || l != ""
			}
			sc.EmptyFirst = rapid.SampledFrom([]int{0, 0, 0, 1, 2}).Draw(t, "setTimeFormatWithoutLayoutFirst")
			if !given {
				// (the nanosecond layout often: it is the one that shows a text remembered from a neighbouring instant)
				sc.LayoutArgs = append(sc.LayoutArgs, rapid.SampledFrom(append([]string{time.RFC3339Nano, time.RFC3339Nano, time.RFC3339Nano, time.StampNano}, customLayouts...)).Draw(t, "layout"))
			}
		}
		sc.Via = rapid.SampledFrom([]string{"thru", "thru", "adapter"}).Draw(t, "via")
		sc.TS = genInstant().Draw(t, "instant")
		if rapid.Bool().Draw(t, "neighbourFirst") {
			sc.Neighbour = rapid.SampledFrom([]time.Duration{1, -1, 999, -999, time.Microsecond, -time.Microsecond, time.Millisecond, -time.Millisecond,
				time.Second - 1, 1 - time.Second, time.Second, 500 * time.Millisecond}).Draw(t, "neighbour")
		}
		sc.FlagHow = rapid.SampledFrom([]string{"set", "set", "addremove", "scope", "restored"}).Draw(t, "flagHow")
		sc.UsedBefore = rapid.IntRange(0, 2).Draw(t, "loggerUsedBeforeItsTimeStyleIsSet") == 0
		for _, f := range []slog.Flags{slog.Ldate, slog.Ltime, slog.Lmicroseconds, slog.LlocalTime} {
			if rapid.Bool().Draw(t, "otherFlag") {
				sc.OtherFlags |= f
			}
		}
		run(t, sc)
	})
}
