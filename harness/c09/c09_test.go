// C09 — history independence: a record's bytes depend only on that call.
package c09

import (
	"bytes"
	"context"
	"errors"
	"fmt"
	"io"
	"os"
	"os/exec"
	"path/filepath"
	"runtime"
	"strings"
	"sync"
	"testing"
	"time"

	"github.com/hedzr/is/term/color"
	"github.com/hedzr/logg/slog"
	"github.com/hedzr/logg/slog/verifharness/vlib"
	"pgregory.net/rapid"
)

func TestMain(m *testing.M) { vlib.Main(m) }

const (
	custColoured = slog.Level(25)
	custPlain    = slog.Level(26)
	custFgOnly   = slog.Level(27) // registered with a foreground colour and no background
	custRaw      = slog.Level(33)
)

type probe struct {
	Format string
	Sev    slog.Level
	Named  bool
	Caller bool
	TS     time.Time
	Msg    string
	Attrs  []vlib.ExpAttr
	UTC    int  // 0 unset, 1 false, 2 true
	ZeroPC bool // the record is handed over without a stack frame (pc 0), as a hand-built log/slog record would be
	// Loose: the probe is an ordinary call with loose "key", value pairs (LogAttrs from one call site) instead of a record
	// handed through with its attributes as objects; the logger's time layout is then the year alone, so that the bytes are
	// still comparable
	Loose bool
}

type histCall struct {
	Logger int // index into the history loggers
	Sev    slog.Level
	Msg    string
	Attrs  []vlib.ExpAttr
	Thru   bool
	Panics int // 0: no; 1: one attribute value panics in its String method (the caller recovers); 2: the same inside a group
	Flip   int // 1: the privacy-path flag is inverted while this call is made; 2: a further path mapping over the source tree is registered meanwhile; 3: the working directory is another one meanwhile (sequential histories only; both undone before the probe)
	Reads  int // > 0: one attribute is an ObjectMarshaller that consumes this many bytes of the encoder it is handed (Next) before writing
	Dup    bool // instead of this call: records whose loose pairs repeat a key (vlib.DisturbDupKeys) in the logger's format
}

// consumer is a user marshaller that uses the read half of the encoder's buffer interface.
type consumer struct{ n int }

func (c consumer) MarshalSlogObject(enc *slog.PrintCtx) error {
	_ = enc.Next(c.n)
	_, _ = enc.ReadByte()
	_, err := enc.WriteString("consumed")
	return err
}

// panicky is a Stringer whose String method reads a field: it panics on a nil pointer.
type panicky struct{ name string }

func (p *panicky) String() string { return "user:" + p.name }

func here() uintptr {
	var pcs [1]uintptr
	runtime.Callers(1, pcs[:])
	return pcs[0]
}

var fixedPC = here()

func configure(lg slog.Logger, format string) {
	switch format {
	case "json":
		lg.SetJSONMode(true)
	case "logfmt":
		lg.SetColorMode(false)
	default:
		lg.SetColorMode(true)
	}
}

func genMsg() *rapid.Generator[string] {
	return rapid.OneOf(
		rapid.StringMatching(`[a-z ]{1,20}`),
		rapid.StringMatching(`[a-z ]{1,10}\n[a-z ]{1,10}(\n[a-z]{1,5})?\n?`),
		rapid.Map(rapid.IntRange(1100, 4000), func(n int) string { return strings.Repeat("grow the pooled buffer ", n/23+1)[:n] }),
		vlib.GenAnyString(),
	)
}

func genAttrs(t *rapid.T) []vlib.ExpAttr {
	strs := rapid.OneOf(vlib.GenPlainString(), vlib.GenAnyString())
	keys := rapid.OneOf(rapid.StringMatching(`[a-e]{1,2}`), rapid.StringMatching(`[a-e]{1,2}`), rapid.StringMatching(`[a-z]{1,4}`),
		rapid.SampledFrom([]string{"time", "level", "msg", "caller", "logger", "error", "zz", ""}))
	as := vlib.GenAttrs(t, vlib.AttrGen{Keys: keys, Vals: vlib.GenValue(strs), MaxDepth: 3, MaxLen: 6}, 0)
	// the encoders special-case an attribute named "time" that holds a time.Time: make that common
	var fix func(as []vlib.ExpAttr)
	fix = func(as []vlib.ExpAttr) {
		for i := range as {
			if as[i].IsGroup {
				fix(as[i].Group)
			} else if as[i].Key == "time" && rapid.Bool().Draw(t, "timeValued") {
				as[i].Val = vlib.Value{Kind: "time", V: vlib.GenTime().Draw(t, "timeAttr")}
			}
		}
	}
	fix(as)
	return as
}

var allSevs = append(append([]slog.Level{}, vlib.Builtins...), custColoured, custPlain, custFgOnly, custFgOnly, custRaw)

func genHistory(t *rapid.T, label string, nLoggers int) []histCall {
	n := rapid.IntRange(0, 40).Draw(t, label+"len")
	h := make([]histCall, n)
	for i := range h {
		h[i] = histCall{
			Logger: rapid.IntRange(0, nLoggers-1).Draw(t, "hlogger"),
			Sev:    rapid.SampledFrom(allSevs).Draw(t, "hsev"),
			Msg:    genMsg().Draw(t, "hmsg"),
			Thru:   rapid.Bool().Draw(t, "hthru"),
		}
		if rapid.IntRange(0, 1999).Draw(t, "hhuge") == 1517 {
			// a record of more than a megabyte (whatever is done to an oversized pooled buffer afterwards)
			h[i].Msg = strings.Repeat("a very long history record ", (1<<20)/27+rapid.IntRange(100, 9000).Draw(t, "hhugeExtra"))
		}
		if rapid.Bool().Draw(t, "hattrs") {
			h[i].Attrs = genAttrs(t)
		}
		if rapid.IntRange(0, 7).Draw(t, "hflip") == 0 {
			h[i].Flip = rapid.IntRange(1, 3).Draw(t, "hflipKind")
		}
		if rapid.IntRange(0, 9).Draw(t, "hreads") == 0 {
			h[i].Reads = rapid.SampledFrom([]int{1, 5, 40, 400, 5000}).Draw(t, "hreadsN")
		}
		h[i].Dup = rapid.IntRange(0, 9).Draw(t, "hdupkeys") == 0
		if rapid.IntRange(0, 11).Draw(t, "hpanics") == 0 {
			h[i].Panics = rapid.IntRange(1, 2).Draw(t, "hpanicsWhere")
		}
	}
	return h
}

func TestHistoryIndependence(t *testing.T) {
	rapid.Check(t, func(t *rapid.T) { property(t, "", nil) })
}

// property is one generated case. mode "" compares four emissions of the probe inside this process.
// In the cross-process modes the same case (same seed, same draws) is executed by two different child
// processes: "alone" emits the probe without running the histories, "history" runs both histories
// first; each hands the probe's bytes to sink and the parent compares the two processes' outputs.
func property(t *rapid.T, mode string, sink func([]byte)) {
	{
		defer vlib.Canon()()
		_ = slog.RegisterLevel(custColoured, "notice", slog.RegWithColor(color.FgWhite, color.BgUnderline), slog.RegWithTreatedAsLevel(slog.InfoLevel))
		_ = slog.RegisterLevel(custPlain, "plainlvl")
		_ = slog.RegisterLevel(custFgOnly, "fgonly", slog.RegWithColor(color.FgCyan))

		var p probe
		p.Format = rapid.SampledFrom([]string{"color", "color", "logfmt", "json"}).Draw(t, "format")
		p.Sev = rapid.SampledFrom(allSevs).Filter(func(l slog.Level) bool { return l != slog.OffLevel }).Draw(t, "severity")
		p.Named = rapid.Bool().Draw(t, "named")
		p.Caller = rapid.Bool().Draw(t, "caller")
		p.TS = vlib.GenTime().Draw(t, "ts")
		p.Msg = genMsg().Draw(t, "msg")
		p.UTC = rapid.IntRange(0, 2).Draw(t, "utc")
		p.Attrs = genAttrs(t)
		p.ZeroPC = rapid.IntRange(0, 4).Draw(t, "zeroPC") == 0
		p.Loose = rapid.IntRange(0, 3).Draw(t, "probeIsAnOrdinaryCallWithLoosePairs") == 0
		if p.Sev == slog.AlwaysLevel && vlib.LooksBlank(p.Msg) {
			p.Msg += "x"
		}
		flags := vlib.BaseFlags
		if p.Caller {
			flags |= slog.Lcaller
			if rapid.IntRange(0, 3).Draw(t, "privacyPathOff") == 0 {
				flags &^= slog.Lprivacypath // the caller file is then given relative to the working directory
			}
		}
		slog.SetFlags(flags)
		// optionally the probe's source file lies under two known-path mappings (as it does for
		// every user whose project is below the home directory)
		twoMappings := p.Caller && rapid.Bool().Draw(t, "twoPathMappings")
		if twoMappings {
			cwd, _ := os.Getwd()
			slog.AddKnownPathMapping(filepath.Dir(cwd), "~up")
			if home, err := os.UserHomeDir(); err == nil && !strings.HasPrefix(cwd, home) && rapid.Bool().Draw(t, "tableOfExactlyTheTwo") {
				// the table holds nothing but the two mappings the file lies under (what a program whose project is below
				// $HOME starts with): a table that small must be walked in the same order as a large one
				slog.RemoveKnownPathMapping(home)
			}
		}

		log := vlib.NewEventLog()
		pw := vlib.NewRec(log, 1, 0)
		// optionally the probe's destination is re-entrant: inside Write, before looking at the payload, it logs a
		// line of its own through another logger (e.g. a metrics or audit hook). The payload it was handed
		// must still be the probe record.
		hookOn := false
		reentrant := rapid.IntRange(0, 3).Draw(t, "reentrantDestination") == 0
		if reentrant {
			side := slog.New("side").SetJSONMode(true).SetWriter(io.Discard).SetErrorWriter(io.Discard).SetLevel(slog.AlwaysLevel)
			log.Hook = func(int) {
				if !hookOn {
					return
				}
				side.Info("a line logged from inside the destination's Write: "+strings.Repeat("overwrite ", 40), "k", 123456789, "s", "side record")
			}
		}
		var plg slog.Logger
		if p.Named {
			plg = slog.New("probe")
		} else {
			plg = slog.New()
		}
		configure(plg, p.Format)
		plg.SetWriter(pw).SetErrorWriter(pw)
		plg.SetLevel(slog.AlwaysLevel)
		switch p.UTC {
		case 1:
			plg.SetUTCMode(false)
		case 2:
			plg.SetUTCMode(true)
		}
		var looseArgs []any
		if p.Loose {
			plg.SetTimeFormat("2006")
			for _, a := range vlib.AttrsOf(p.Attrs) {
				if _, isGroup := a.Value().(slog.Attrs); isGroup || a.Key() == "" {
					looseArgs = append(looseArgs, a)
				} else {
					looseArgs = append(looseArgs, a.Key(), a.Value())
				}
			}
		}

		// history loggers: one per format plus a child of the probe logger
		hlog := vlib.NewEventLog()
		hw := vlib.NewRec(hlog, 2, 0)
		var hl []slog.Logger
		for _, f := range []string{"color", "logfmt", "json"} {
			l := slog.New("hist-" + f)
			configure(l, f)
			l.SetWriter(hw).SetErrorWriter(hw)
			l.SetLevel(slog.AlwaysLevel)
			hl = append(hl, l)
		}
		kid := plg.New("kid")
		kid.SetWriter(hw).SetErrorWriter(hw)
		kid.SetLevel(slog.AlwaysLevel)
		hl = append(hl, kid)

		doProbe := func() []byte {
			before := log.Len()
			pc := fixedPC
			if p.ZeroPC {
				pc = 0
			}
			if p.Loose {
				plg.LogAttrs(context.Background(), p.Sev, p.Msg, append([]any(nil), looseArgs...)...)
			} else {
				plg.(slog.LogSlogAware).WriteThru(context.Background(), p.Sev, p.TS, pc, p.Msg, vlib.AttrsOf(p.Attrs))
			}
			evs := log.Snapshot()[before:]
			if len(evs) != 1 {
				t.Fatalf("C09 harness expectation: one probe record, got %d", len(evs))
			}
			return evs[0].Payload
		}
		runHist := func(h []histCall, goroutines int) {
			do := func(c histCall) {
				l := hl[c.Logger]
				if c.Dup {
					vlib.DisturbDupKeys([]string{"color", "logfmt", "json", p.Format}[c.Logger%4])
					return
				}
				attrs := vlib.AttrsOf(c.Attrs)
				if c.Flip > 0 && goroutines <= 1 {
					// the same call site as the probe's, resolved under other global settings
					if c.Flip == 1 {
						old := slog.GetFlags()
						slog.SetFlags(old ^ slog.Lprivacypath)
						defer slog.SetFlags(old)
					} else if c.Flip == 2 {
						cwd, _ := os.Getwd()
						up := filepath.Dir(filepath.Dir(cwd))
						slog.AddKnownPathMapping(up, "~flip")
						defer slog.RemoveKnownPathMapping(up)
					} else {
						// the process is somewhere else for a moment (relative file names depend on where it is)
						cwd, _ := os.Getwd()
						if os.Chdir("/") == nil {
							defer func() { _ = os.Chdir(cwd) }()
						}
					}
				}
				if c.Reads > 0 {
					attrs = append(attrs, slog.NewAttr("rd", consumer{c.Reads}))
				}
				if c.Panics > 0 {
					// a value that panics while it is formatted; the caller recovers, as a server does per request
					defer func() { _ = recover() }()
					bad := slog.NewAttr("pv", (*panicky)(nil))
					if c.Panics == 2 {
						bad = slog.NewGroupedAttr("pg", slog.NewAttr("ok", 1), bad)
					}
					attrs = append(attrs, bad)
				}
				if c.Thru {
					l.(slog.LogSlogAware).WriteThru(context.Background(), c.Sev, time.Unix(1700000000, 5), fixedPC, c.Msg, attrs)
				} else {
					args := make([]any, 0, len(attrs))
					for _, a := range attrs {
						args = append(args, a)
					}
					l.LogAttrs(context.Background(), c.Sev, c.Msg, args...)
				}
			}
			if goroutines <= 1 || len(h) < 2 {
				for _, c := range h {
					do(c)
				}
				return
			}
			// all but the last call on other goroutines; the last one on the probe's own goroutine
			var wg sync.WaitGroup
			for g := 0; g < goroutines; g++ {
				wg.Add(1)
				go func(g int) {
					defer wg.Done()
					for i := g; i < len(h)-1; i += goroutines {
						do(h[i])
					}
				}(g)
			}
			wg.Wait()
			do(h[len(h)-1])
		}

		h1 := genHistory(t, "h1", len(hl))
		h2 := genHistory(t, "h2", len(hl))
		g1 := rapid.SampledFrom([]int{1, 1, 1, 3}).Draw(t, "goroutines")

		switch mode {
		case "alone":
			sink(doProbe())
			return
		case "history":
			runHist(h1, 1)
			runHist(h2, 1)
			sink(doProbe())
			return
		}
		b0 := doProbe()
		runHist(h1, g1)
		hookOn = true // (only matters for a re-entrant destination) the side logging happens for emissions 2 and 4 only
		b1 := doProbe()
		hookOn = false
		runHist(h2, 1)
		b2 := doProbe()
		hookOn = true
		b3 := doProbe()
		hookOn = false

		desc := fmt.Sprintf("probe{format=%s severity=%d named=%v caller=%v utc=%d msg=%s attrs=[%s]}", p.Format, int(p.Sev), p.Named, p.Caller, p.UTC, vlib.Short(p.Msg), vlib.Describe(p.Attrs))
		last := func(h []histCall) string {
			if len(h) == 0 {
				return "(empty history)"
			}
			c := h[len(h)-1]
			return fmt.Sprintf("%d calls, the last: logger #%d severity %d msg %s", len(h), c.Logger, int(c.Sev), vlib.Short(c.Msg))
		}
		for _, pair := range []struct {
			name string
			a, b []byte
		}{{"first emission vs. after history 1", b0, b1}, {"after history 1 vs. after history 2", b1, b2}, {"after history 2 vs. immediately repeated", b2, b3}} {
			if !bytes.Equal(pair.a, pair.b) {
				sig := "C09/history-dependent"
				if twoMappings {
					sig = "C09/caller-file-depends-on-map-order"
				}
				vlib.Discrep(t, sig, "C09 %s: bytes differ (%s):\n  %q\n  %q\nhistory 1: %s\nhistory 2: %s", desc, pair.name, pair.a, pair.b, last(h1), last(h2))
			}
		}

		// classification
		nt := map[string]bool{}
		for _, h := range [][]histCall{h1, h2} {
			for _, c := range h {
				if len(c.Msg) > len(p.Msg) {
					nt["history-has-longer-record"] = true
				}
				f := []string{"color", "logfmt", "json", p.Format}[c.Logger]
				if f != p.Format {
					nt["history-has-other-format"] = true
				}
				if c.Sev != p.Sev && f == "color" {
					nt["history-has-other-colour"] = true
				}
				if c.Panics > 0 {
					nt["history-has-a-recovered-panic"] = true
				}
				if c.Reads > 0 {
					nt["history-has-a-marshaller-reading-from-the-encoder"] = true
				}
				if c.Flip > 0 {
					nt["history-call-under-other-global-settings"] = true
				}
			}
		}
		if p.Sev == custPlain || p.Sev == custRaw {
			nt["probe-level-without-colour"] = true
		}
		if p.Sev == custFgOnly {
			nt["probe-level-with-foreground-colour-only"] = true
		}
		if g1 > 1 {
			nt["concurrent-history"] = true
		}
		if twoMappings {
			nt["file-under-two-path-mappings"] = true
		}
		if reentrant {
			nt["re-entrant-destination"] = true
		}
		key := ""
		if nt["history-has-longer-record"] || nt["history-has-other-format"] || nt["history-has-other-colour"] {
			key = fmt.Sprintf("%s|%d|%v|%v|%s|%d|%d", p.Format, int(p.Sev), p.Named, p.Caller, vlib.JoinSorted(nt), len(h1), len(h2))
		}
		labels := []string{"format=" + p.Format}
		for l := range nt {
			labels = append(labels, l)
		}
		vlib.Case("TestHistoryIndependence", key, labels...)
		if key != "" && vlib.WantSample("TestHistoryIndependence/"+p.Format) {
			vlib.Sample("TestHistoryIndependence/"+p.Format, map[string]any{"probe": desc, "history1": last(h1), "history2": last(h2), "payload": vlib.Short(string(b0))})
		}
	}
}

// TestCrossProcessChild is the child side of TestCrossProcess (skipped unless C09_MODE is set).
func TestCrossProcessChild(t *testing.T) {
	mode := os.Getenv("C09_MODE")
	if mode == "" {
		t.Skip("child side of TestCrossProcess")
	}
	f, err := os.Create(os.Getenv("C09_OUT"))
	if err != nil {
		t.Fatal(err)
	}
	defer f.Close()
	rapid.Check(t, func(t *rapid.T) {
		property(t, mode, func(b []byte) { fmt.Fprintf(f, "%x\n", b) })
	})
}

// TestCrossProcess: the same generated cases are executed by two fresh child processes, one emitting every probe
// without its histories and one after them; the probes' bytes must agree line by line. Unlike the in-process
// comparison this also exposes state that lives as long as the process (first-use caches, interning tables).
func TestCrossProcess(t *testing.T) {
	self := os.Getenv("VERIF_SELF")
	if self == "" {
		self = os.Args[0]
	}
	// several pairs of processes with few cases each rather than one long pair: what is decided by the FIRST
	// use in a process gets one chance per pair
	n, pairs := 100, 8
	if vlib.Thorough() {
		n, pairs = 1500, 32
	}
	base := os.Getenv("VERIF_SEED")
	if base == "" || base == "0" {
		base = "1"
	}
	dir := t.TempDir()
	total := 0
	for pair := 0; pair < pairs; pair++ {
		seed := fmt.Sprintf("%s%03d", base, pair+1)
		run := func(mode string) []string {
			out := filepath.Join(dir, mode+".txt")
			cmd := exec.Command(self, "-test.run", "^TestCrossProcessChild$", "-test.count", "1", "-rapid.checks", fmt.Sprint(n), "-rapid.seed", seed, "-rapid.nofailfile")
			cmd.Env = append(os.Environ(), "C09_MODE="+mode, "C09_OUT="+out, "VERIF_STATS=", "VERIF_CHILD=")
			if b, err := cmd.CombinedOutput(); err != nil {
				t.Fatalf("C09 cross-process child (%s) failed: %v\n%s", mode, err, b)
			}
			data, err := os.ReadFile(out)
			if err != nil {
				t.Fatalf("harness: %v", err)
			}
			return strings.Split(strings.TrimSpace(string(data)), "\n")
		}
		alone, hist := run("alone"), run("history")
		if len(alone) != len(hist) || len(alone) < n {
			t.Fatalf("harness: the two child processes produced %d and %d probe records for %d cases", len(alone), len(hist), n)
		}
		for i := range alone {
			if alone[i] != hist[i] {
				var a, h []byte
				fmt.Sscanf(alone[i], "%x", &a)
				fmt.Sscanf(hist[i], "%x", &h)
				vlib.Discrep(t, "C09/cross-process", "C09 case #%d of seed %s: the probe printed by a process that ran no history differs from the one printed after the histories:\n  %q\n  %q", i, seed, a, h)
				break
			}
		}
		vlib.Case("TestCrossProcess", fmt.Sprintf("seed-%s-%d", seed, n), "cross-process")
		total += len(alone)
		if vlib.WantSample("TestCrossProcess") {
			vlib.Sample("TestCrossProcess", map[string]any{"seed": seed, "cases": n, "first_probe_hex_prefix": alone[0][:min(80, len(alone[0]))]})
		}
	} // pair
	vlib.Extra("cross_process_probe_pairs", total)
}

var regCounter = 5000

// TestRegistrationHistory: two custom levels registered identically (same tags and colours) must print
// identically in colored mode (where only the tag shows) - whether or not records at that level value
// were emitted while it was still unregistered.
func TestRegistrationHistory(t *testing.T) {
	rapid.Check(t, func(t *rapid.T) {
		defer vlib.Canon()()
		regCounter += 2
		a, b := slog.Level(regCounter), slog.Level(regCounter+1)
		width := rapid.IntRange(1, 5).Draw(t, "tagWidth")
		slog.SetLevelOutputWidth(width)
		tags := [slog.MaxLengthShortTag]string{"", "Q", "QR", "QRS", "QRST", "QRSTU"}
		withTags := rapid.Bool().Draw(t, "withTags")
		log := vlib.NewEventLog()
		w := vlib.NewRec(log, 1, 0)
		lg := slog.New().SetColorMode(true).SetWriter(w).SetErrorWriter(w).SetLevel(slog.AlwaysLevel)
		ts := time.Unix(1700000000, 123456000).UTC()
		emit := func(l slog.Level) []byte {
			before := log.Len()
			lg.WriteThru(context.Background(), l, ts, 0, "registration probe", nil)
			return log.Snapshot()[before:][0].Payload
		}
		// history: level a is used while unregistered (possibly at several widths), b is not
		n := rapid.IntRange(1, 3).Draw(t, "recordsBeforeRegistration")
		for i := 0; i < n; i++ {
			slog.SetLevelOutputWidth(rapid.IntRange(1, 5).Draw(t, "earlierWidth"))
			emit(a)
		}
		slog.SetLevelOutputWidth(width)
		emit(a)
		opts := []slog.RegOpt{slog.RegWithColor(color.FgWhite, color.BgUnderline), slog.RegWithTreatedAsLevel(slog.InfoLevel)}
		if withTags {
			opts = append(opts, slog.RegWithShortTags(tags))
		}
		title := fmt.Sprintf("same%d", regCounter)
		if err := slog.RegisterLevel(a, title+"x", opts...); err != nil {
			t.Fatalf("harness: %v", err)
		}
		if err := slog.RegisterLevel(b, title+"y", opts...); err != nil {
			t.Fatalf("harness: %v", err)
		}
		pa, pb := emit(a), emit(b)
		if !bytes.Equal(pa, pb) {
			vlib.Discrep(t, "C09/registration-history", "C09 two levels registered identically (tags=%v, width %d) print differently; the first had been logged %d times while unregistered:\n  %q\n  %q", withTags, width, n+1, pa, pb)
		}
		vlib.Case("TestRegistrationHistory", fmt.Sprintf("%d|%v|%d", width, withTags, n), "registration-history")
		vlib.Sample("TestRegistrationHistory", map[string]any{"width": width, "tags": withTags, "payload": vlib.Short(string(pa))})
	})
}

// TestTimeLapse: the few things a sub-millisecond case cannot contain - real seconds between two records. The
// same call is emitted, then (more than a second later, so that whatever the package refreshes "at most once a
// second" is due) another record is issued while the process is in another working directory and the
// privacy-path flag is off, then the first call is emitted again in the original setting: same bytes.
func TestTimeLapse(t *testing.T) {
	defer vlib.Canon()()
	cwd, _ := os.Getwd()
	ts := time.Unix(1700000000, 123456789).UTC()
	for _, format := range []string{"json", "logfmt", "color"} {
		for _, privacy := range []bool{true, false} {
			flags := vlib.BaseFlags | slog.Lcaller
			if !privacy {
				flags &^= slog.Lprivacypath
			}
			slog.SetFlags(flags)
			log := vlib.NewEventLog()
			w := vlib.NewRec(log, 1, 0)
			var lg slog.Logger = slog.New("lapse")
			configure(lg, format)
			lg.SetWriter(w).SetErrorWriter(w).SetLevel(slog.AlwaysLevel)
			emit := func() []byte {
				before := log.Len()
				lg.(slog.LogSlogAware).WriteThru(context.Background(), slog.InfoLevel, ts, fixedPC, "time lapse probe", slog.Attrs{slog.NewAttr("k", 1)})
				return log.Snapshot()[before:][0].Payload
			}
			first := emit()
			time.Sleep(1050 * time.Millisecond)
			if os.Chdir("/") == nil {
				slog.SetFlags(flags ^ slog.Lprivacypath)
				_ = emit()
				slog.SetFlags(flags)
				_ = os.Chdir(cwd)
			}
			if again := emit(); string(again) != string(first) {
				vlib.Discrep(t, "C09/history-dependent", "C09 time lapse (format=%s privacypath=%v): the same call gives other bytes after a record that was issued a second later from another working directory:\n  %q\n  %q", format, privacy, first, again)
			}
			vlib.Case("TestTimeLapse", fmt.Sprintf("%s-%v", format, privacy), "time-lapse")
		}
	}
}

// TestGrowthBoundaries: "how internal buffers were recycled" includes whether the record is printed into a
// buffer that is large enough already or into one that has to grow while the record is written. The same call is
// made twice in a row: first by a context made afresh (vlib.FreshContexts), then by the warm one it left behind.
// Padding attributes move the byte at which the fresh buffer must grow across every byte of the record's own
// fields; optionally one attribute is a marshaller that has consumed bytes of the encoder before (the growth then
// drops them from the front of the buffer and every position remembered before it moves).
func TestGrowthBoundaries(t *testing.T) {
	rapid.Check(t, func(t *rapid.T) {
		defer vlib.Canon()()
		_ = slog.RegisterLevel(custColoured, "notice", slog.RegWithColor(color.FgWhite, color.BgUnderline), slog.RegWithTreatedAsLevel(slog.InfoLevel))
		format := rapid.SampledFrom([]string{"color", "logfmt", "json"}).Draw(t, "format")
		sev := rapid.SampledFrom([]slog.Level{slog.InfoLevel, slog.ErrorLevel, slog.DebugLevel, custColoured, custRaw}).Draw(t, "severity")
		ts := vlib.GenTime().Draw(t, "ts")
		msg := rapid.OneOf(rapid.StringMatching(`[a-z ]{1,20}`), rapid.StringMatching(`[a-z ]{1,10}\n[a-z ]{1,10}\n?`)).Draw(t, "msg")
		strs := rapid.OneOf(vlib.GenPlainString(), rapid.StringMatching(`[a-z "\\=\n\x1b]{0,24}`))
		keys := rapid.OneOf(rapid.StringMatching(`[a-e]{1,2}`), rapid.StringMatching(`[c-z]{1,4}`), rapid.SampledFrom([]string{"time", "error", "zz"}))
		attrs := vlib.GenAttrs(t, vlib.AttrGen{Keys: keys, Vals: vlib.GenValue(strs), MaxDepth: 2, MaxLen: 5}, 0)
		reads := rapid.SampledFrom([]int{0, 0, 1, 5, 12, 40, 400}).Draw(t, "consumedBytes")
		// every other case carries one attribute of each kind the encoder prints with code of its own (after the
		// consuming marshaller in sorted order), so that the growth point visits every byte of every kind
		allKinds := rapid.Bool().Draw(t, "oneAttributeOfEveryKind")
		caller := rapid.Bool().Draw(t, "caller")
		flags := vlib.BaseFlags
		if caller {
			flags |= slog.Lcaller
		}
		slog.SetFlags(flags)

		log := vlib.NewEventLog()
		w := vlib.NewRec(log, 1, 0)
		var lg slog.Logger = slog.New("growth")
		configure(lg, format)
		lg.SetWriter(w).SetErrorWriter(w).SetLevel(slog.AlwaysLevel)
		emit := func(k, d int) (out []byte, panicked any) {
			defer func() { panicked = recover() }()
			as := vlib.AttrsOf(attrs)
			if reads > 0 {
				as = append(as, slog.NewAttr("rd", vlib.Consumer{N: reads}))
			}
			if allKinds {
				if reads > 0 {
					as = append(as, slog.NewAttr("ka", vlib.Consumer{N: reads}))
				}
				as = append(as, everyKind(ts)...)
			}
			as = append(as, vlib.GrowthPads(k, d)...)
			before := log.Len()
			lg.(slog.LogSlogAware).WriteThru(context.Background(), sev, ts, fixedPC, msg, as)
			if evs := log.Snapshot()[before:]; len(evs) == 1 {
				out = evs[0].Payload
			}
			return out, nil
		}
		base, p0 := emit(0, 0)
		one, p1 := emit(1, 0)
		if p0 != nil || p1 != nil {
			t.Fatalf("C09 growth (format=%s): the record cannot be printed at all: %v %v", format, p0, p1)
		}
		sweep := vlib.GrowthSweep(len(base), len(one)-len(base))
		for _, kd := range sweep {
			vlib.FreshContexts()
			fresh, pf := emit(kd[0], kd[1])
			warm, pw := emit(kd[0], kd[1])
			if pf != nil || pw != nil {
				vlib.Discrep(t, "C09/growth-panic", "C09 growth (format=%s, %d padding attributes, %d digits, marshaller consumed %d bytes): the call panics when the record is printed by a %s context: %v\n  record without padding: %q",
					format, kd[0], kd[1], reads, map[bool]string{true: "fresh", false: "warm"}[pf != nil], map[bool]any{true: pf, false: pw}[pf != nil], base)
				continue
			}
			if string(fresh) != string(warm) {
				vlib.Discrep(t, "C09/growth-dependent", "C09 growth (format=%s, %d padding attributes, %d digits, marshaller consumed %d bytes): the same call gives other bytes when its buffer has to grow while the record is written:\n  fresh %q\n  warm  %q",
					format, kd[0], kd[1], reads, fresh, warm)
			}
		}
		vlib.ExtraAdd("growth_emissions", int64(2*len(sweep)))
		nontriv := ""
		if reads > 0 {
			nontriv = fmt.Sprintf("%s/%d/%d/%d/%v", format, reads, len(base)/16, len(attrs), allKinds)
		}
		vlib.Case("TestGrowthBoundaries", nontriv, "growth/"+format, fmt.Sprintf("consumed=%d", reads), fmt.Sprintf("everyKind=%v", allKinds))
		if vlib.WantSample("growth/" + format) {
			vlib.Sample("growth/"+format, map[string]any{"record": vlib.Short(string(base)), "consumed": reads, "paddings": len(sweep)})
		}
	})
}

// everyKind is one attribute of every kind of value the encoder has code of its own for (keys kc… to kz…).
func everyKind(ts time.Time) []slog.Attr {
	return []slog.Attr{
		slog.NewAttr("kc064", complex64(complex(0.1, -0.1))),
		slog.NewAttr("kc128", complex(1.5, 2)),
		slog.NewAttr("kcs064", []complex64{complex(1, -2), complex(3, 4)}),
		slog.NewAttr("kcs128", []complex128{complex(1, -2), complex(-3, 4), complex(0, -0.25)}),
		slog.NewAttr("kdur", 1500*time.Millisecond),
		slog.NewAttr("kdurs", []time.Duration{time.Second, -3 * time.Microsecond}),
		slog.NewAttr("kerr", errors.New("boom \"quoted\"")),
		slog.NewAttr("kf32", float32(0.1)),
		slog.NewAttr("kf64", -2.5e-7),
		slog.NewAttr("kfs", []float64{0.5, -1e21}),
		slog.NewGroupedAttr("kg", slog.NewAttr("x", complex(0, -1)), slog.NewAttr("y", "in a group"), slog.NewGroupedAttr("h", slog.NewAttr("z", int8(-7)))),
		slog.NewAttr("kint", -42),
		slog.NewAttr("kints", []int{1, -2, 3}),
		slog.NewAttr("kmap", map[string]int{"a": 1}),
		slog.NewAttr("knil", nil),
		slog.NewAttr("kstr", "needs \"quotes\"\nand a second line"),
		slog.NewAttr("kstringer", vlib.Str{S: "str"}),
		slog.NewAttr("kstrs", []string{"a b", "c"}),
		slog.NewAttr("ktime", ts),
		slog.NewAttr("ktimes", []time.Time{ts, ts.Add(time.Hour)}),
		slog.NewAttr("ku8s", []byte("bytes")),
		slog.NewAttr("kuint", uint64(1<<63)),
		slog.NewAttr("kbool", true),
	}
}
