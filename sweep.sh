#!/bin/bash
# usage: ./sweep.sh <tier> <seed>...   runs every check at the given seeds, prints anything that is not ok
tier=$1; shift
cd "$(dirname "$0")"
for s in "$@"; do
  for p in $(./check --list); do
    out=$(VERIF_SEED=$s ./check $p --tier $tier 2>&1)
    rc=$?
    echo "$out" | grep -E "tier=$tier" | sed "s/^/[seed $s] /"
    if [ $rc -ne 0 ]; then echo "[seed $s] $p rc=$rc"; echo "$out" | tail -40; fi
  done
done
echo SWEEP-DONE
