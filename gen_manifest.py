#!/usr/bin/env python3
"""Regenerate MANIFEST.json from checks_config.py (claimed checks) and properties.jsonl (everything else -> not_applicable)."""
import json, subprocess
from checks_config import PROPS

ids = [json.loads(l)["id"] for l in open("/verif/properties.jsonl") if l.strip()]
hook = subprocess.run(["git", "-C", "/repo", "log", "--format=%H", "--", "slog/verif_hooks.go"],
                      stdout=subprocess.PIPE, text=True).stdout.split()
checks = []
for pid in ids:
    if pid not in PROPS:
        continue
    c = PROPS[pid]
    entry = dict(
        property_id=pid,
        quick_cmd="./check %s --tier quick" % pid,
        thorough_cmd="./check %s --tier thorough" % pid,
        evidence_file="/verif/evidence/%s.json" % pid,
        replay_cmd_template="./check %s --replay {path}" % pid,
        engine="rapid+gofuzz",
        level_claimed=dict(category=c["level"], text=c["claim"], design_ref="DESIGN.md section 3, " + pid),
        level_note=c["note"],
        technique=c["technique"],
    )
    checks.append(entry)
NA_REASONS = {}
na = [dict(property_id=p, reason=NA_REASONS.get(p, "check not built yet; planned in DESIGN.md section 3 (not a statement that the technique cannot apply)"))
      for p in ids if p not in PROPS]
doc = dict(
    version=1,
    setup_cmd="./check --setup",
    hooks=dict(
        guard="verif",
        enable="go build tag: go test -tags verif (the harness module replaces github.com/hedzr/logg with /repo, so every check compiles /repo's working tree)",
        baseline_off_cmd="for m in . ./tests; do (cd /repo/$m && env -u GOFLAGS GOPROXY=off GOTOOLCHAIN=local go test -vet=off -count=1 ./...) || exit 1; done",
        source_commits=hook,
        add_only=True,
    ),
    engines=[
        dict(name="rapid+gofuzz", path="/verif/harness", serves_properties=[c["property_id"] for c in checks],
             kind_free_text="Go module with one package per property: pgregory.net/rapid v1.3.0 properties (stateful where the "
                            "property is over histories), native go test -fuzz targets in thorough tiers, child-process scenarios "
                            "for process-level effects; driven by /verif/check"),
    ],
    checks=checks,
    not_applicable=na,
    notes="All randomness comes from rapid seeded with VERIF_SEED (0 is remapped); native fuzzing (not seedable) only runs in "
          "thorough tiers. Exit 2 of ./check means inconclusive (build failure/timeout), never a verdict. Genuine defects that "
          "were repaired are listed as fixed in known_findings.json; open ones are reported as KNOWN-FINDING lines.",
)
json.dump(doc, open("/verif/MANIFEST.json", "w"), indent=1)
print("MANIFEST.json: %d checks, %d not_applicable" % (len(checks), len(na)))
